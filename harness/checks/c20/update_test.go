package c20

import (
	"bytes"
	"encoding/json"
	"fmt"
	"reflect"
	"sort"
	"testing"
	"time"

	"go.sia.tech/core/consensus"
	"go.sia.tech/core/types"
	"pgregory.net/rapid"
	"verif/harness/gen"
	"verif/harness/ref"
	"verif/harness/sim"
	"verif/harness/stats"
)

const keyLeaf = "C20/update-json-loses-leaf-hash"

type treeNoder interface {
	ForEachTreeNode(fn func(row, col uint64, h types.Hash256))
}

func treeNodeList(u treeNoder) []string {
	var out []string
	u.ForEachTreeNode(func(row, col uint64, h types.Hash256) {
		out = append(out, fmt.Sprintf("%02d/%020d=%x", row, col, h[:]))
	})
	sort.Strings(out)
	return out
}

// hasUpdatedLeaves reads the input class of the known finding off the update's JSON form:
// the update rewrites at least one leaf that existed before the block.
func hasUpdatedLeaves(js []byte) bool {
	var v struct {
		UpdatedLeaves map[string]json.RawMessage `json:"updatedLeaves"`
	}
	if err := json.Unmarshal(js, &v); err != nil {
		return false
	}
	return len(v.UpdatedLeaves) > 0
}

func foldProof(leaf ref.H, idx uint64, proof []types.Hash256) ref.H {
	h := leaf
	for i, s := range proof {
		if idx&(1<<uint(i)) == 0 {
			h = ref.NodeHash(h, ref.H(s))
		} else {
			h = ref.NodeHash(ref.H(s), h)
		}
	}
	return h
}

func sortedKeys[K ~[32]byte, V any](m map[K]V) []K {
	ks := make([]K, 0, len(m))
	for k := range m {
		ks = append(ks, k)
	}
	sort.Slice(ks, func(i, j int) bool { a, b := [32]byte(ks[i]), [32]byte(ks[j]); return bytes.Compare(a[:], b[:]) < 0 })
	return ks
}

// verifyStore recomputes, with x/crypto BLAKE2b and hand-written element hashes, the root
// that every tracked element's proof leads to and compares it with the accumulator.
func verifyStore(acc consensus.ElementAccumulator, st *sim.Store) (int, error) {
	n := 0
	check := func(kind string, id any, se types.StateElement, elem ref.H, spent bool) error {
		n++
		h := len(se.MerkleProof)
		if se.LeafIndex >= acc.NumLeaves {
			return fmt.Errorf("%s %v: leaf index %d beyond the accumulator's %d leaves", kind, id, se.LeafIndex, acc.NumLeaves)
		}
		if h >= 64 || acc.NumLeaves&(1<<uint(h)) == 0 {
			return fmt.Errorf("%s %v (leaf %d): proof has %d hashes but the accumulator (%d leaves) has no tree of that height", kind, id, se.LeafIndex, h, acc.NumLeaves)
		}
		if got := foldProof(ref.AccLeafHash(elem, se.LeafIndex, spent), se.LeafIndex, se.MerkleProof); types.Hash256(got) != acc.Trees[h] {
			return fmt.Errorf("%s %v (leaf %d, spent=%v): proof does not lead to the accumulator root of height %d", kind, id, se.LeafIndex, spent, h)
		}
		return nil
	}
	for _, id := range sortedKeys(st.SC) {
		e := st.SC[id]
		if err := check("siacoin element", id, e.StateElement, ref.SiacoinElemHash(e), false); err != nil {
			return n, err
		}
		if !sim.LiveSC(acc, e) {
			return n, fmt.Errorf("siacoin element %v (leaf %d) refused by ValidateTransactionElements", id, e.StateElement.LeafIndex)
		}
	}
	for _, id := range sortedKeys(st.SpentSC) {
		e := st.SpentSC[id]
		if err := check("spent siacoin element", id, e.StateElement, ref.SiacoinElemHash(e), true); err != nil {
			return n, err
		}
	}
	for _, id := range sortedKeys(st.SF) {
		e := st.SF[id]
		if err := check("siafund element", id, e.StateElement, ref.SiafundElemHash(e), false); err != nil {
			return n, err
		}
		if !sim.LiveSF(acc, e) {
			return n, fmt.Errorf("siafund element %v (leaf %d) refused by ValidateTransactionElements", id, e.StateElement.LeafIndex)
		}
	}
	for _, id := range sortedKeys(st.SpentSF) {
		e := st.SpentSF[id]
		if err := check("spent siafund element", id, e.StateElement, ref.SiafundElemHash(e), true); err != nil {
			return n, err
		}
	}
	for _, id := range sortedKeys(st.FC) {
		e := st.FC[id]
		if err := check("contract", id, e.StateElement, ref.FileContractElemHash(e.ID, e.FileContract), false); err != nil {
			return n, err
		}
	}
	for _, id := range sortedKeys(st.ResolvedFC) {
		e := st.ResolvedFC[id]
		if err := check("resolved contract", id, e.StateElement, ref.FileContractElemHash(e.ID, e.FileContract), true); err != nil {
			return n, err
		}
	}
	for _, id := range sortedKeys(st.V2FC) {
		e := st.V2FC[id]
		if err := check("v2 contract", id, e.StateElement, ref.V2FileContractElemHash(e.ID, e.V2FileContract), false); err != nil {
			return n, err
		}
		if !sim.LiveV2FC(acc, e) {
			return n, fmt.Errorf("v2 contract %v (leaf %d) refused by ValidateTransactionElements", id, e.StateElement.LeafIndex)
		}
	}
	for _, id := range sortedKeys(st.ResolvedV2FC) {
		e := st.ResolvedV2FC[id]
		if err := check("resolved v2 contract", id, e.StateElement, ref.V2FileContractElemHash(e.ID, e.V2FileContract), true); err != nil {
			return n, err
		}
	}
	for _, e := range st.CI {
		if err := check("chain index", e.ChainIndex, e.StateElement, ref.ChainIndexElemHash(e), false); err != nil {
			return n, err
		}
		if !sim.LiveCI(acc, e) {
			return n, fmt.Errorf("chain index %v (leaf %d) refused by ValidateTransactionElements", e.ChainIndex, e.StateElement.LeafIndex)
		}
	}
	return n, nil
}

type updateStats struct {
	updates, compared, excluded, proofs int
	withUpdatedLeaves, refreshed        int // fully compared updates: with rewritten leaves / that changed a held proof
	reverts, attestations               int
	reused                              int // updates additionally decoded into the variable that held the previous one
	reAU                                consensus.ApplyUpdate
	reRU                                consensus.RevertUpdate
}

type update interface {
	sim.Diffs
	treeNoder
	UpdateElementProof(*types.StateElement)
}

// compareUpdate sends u through JSON (into fresh, a pointer to a zero update of the same type) and
// requires that the copy reports the same diffs and refreshes the store `pre` to exactly
// `post` (what the original produced), every element of which verifies against acc.
func compareUpdate(where string, u update, fresh any, pre, post *sim.Store, acc consensus.ElementAccumulator,
	apply func(st *sim.Store, u2 any) error, excl bool, us *updateStats, blk *types.Block) error {
	us.updates++
	js, err := safeMarshal(u)
	if err != nil {
		return stats.Failf("C20/update-json", "%s: json.Marshal of the update failed: %v", where, err)
	}
	if err := safeUnmarshal(js, fresh); err != nil {
		return stats.Failf("C20/update-json", "%s: json.Unmarshal of the update's own JSON failed: %v\n json %s", where, err, clip(js))
	}
	u2 := reflect.ValueOf(fresh).Elem().Interface().(update)
	js2, err := safeMarshal(u2)
	if err != nil {
		return stats.Failf("C20/update-json", "%s: json.Marshal of the parsed update failed: %v", where, err)
	}
	if !bytes.Equal(js, js2) {
		return stats.Failf("C20/update-json/reprint", "%s: the parsed update prints differently:\n first  %s\n second %s", where, clip(js), clip(js2))
	}
	// diffs (ids, contents, leaf indices, flags, revisions, resolutions, proofs)
	sc, sf, fc, v2fc, _ := sim.CanonDiffs(u, true)
	sc2, sf2, fc2, v2fc2, _ := sim.CanonDiffs(u2, true)
	for _, p := range []struct {
		kind string
		x, y []string
	}{{"siacoin", sc, sc2}, {"siafund", sf, sf2}, {"contract", fc, fc2}, {"v2 contract", v2fc, v2fc2}} {
		if err := sim.EqualLists(p.kind, p.x, p.y); err != nil {
			return stats.Failf("C20/update-json/diffs", "%s: diffs of the update differ after a JSON round trip: %v", where, err)
		}
	}
	if d := gen.Diff(reflect.ValueOf(u.ChainIndexElement()), reflect.ValueOf(u2.ChainIndexElement())); d != "" {
		return stats.Failf("C20/update-json/diffs", "%s: chain index element differs after a JSON round trip: %s", where, d)
	}
	// attestation elements are only visible in the JSON form: they must be the block's attestations
	var att struct {
		AttestationElements []types.AttestationElement `json:"attestationElements"`
	}
	if err := safeUnmarshal(js2, &att); err != nil {
		return stats.Failf("C20/update-json", "%s: attestation elements of the update's JSON do not parse: %v", where, err)
	}
	var wantAtt []types.AttestationElement
	if blk != nil {
		for _, txn := range blk.V2Transactions() {
			txid := txn.ID()
			for i, a := range txn.Attestations {
				wantAtt = append(wantAtt, types.AttestationElement{ID: txn.AttestationID(txid, i), Attestation: a})
			}
		}
	}
	if len(att.AttestationElements) != len(wantAtt) {
		return stats.Failf("C20/update-json/attestations", "%s: the block has %d attestations, the round-tripped update's JSON carries %d attestation elements", where, len(wantAtt), len(att.AttestationElements))
	}
	for i := range wantAtt {
		got := att.AttestationElements[i]
		if got.ID != wantAtt[i].ID {
			return stats.Failf("C20/update-json/attestations", "%s: attestation element %d has id %v, want %v", where, i, got.ID, wantAtt[i].ID)
		}
		if d := gen.Diff(reflect.ValueOf(wantAtt[i].Attestation), reflect.ValueOf(got.Attestation)); d != "" {
			return stats.Failf("C20/update-json/attestations", "%s: attestation element %d differs from the block's attestation: %s", where, i, d)
		}
		us.attestations++
	}
	class := hasUpdatedLeaves(js)
	key := "C20/update-json/proofs"
	if class {
		key = keyLeaf
		if excl && stats.KnownOpen(keyLeaf) {
			stats.G().Excluded(keyLeaf)
			us.excluded++
			return nil
		}
	}
	b := pre.Clone()
	if err := stats.Safe(key, func() error { return apply(b, fresh) }); err != nil {
		return stats.Failf(key, "%s: the store cannot be refreshed with the round-tripped update: %v", where, err)
	}
	want, got := post.Snapshot(true), b.Snapshot(true)
	if !bytes.Equal(want, got) {
		return stats.Failf(key, "%s: elements refreshed by the round-tripped update differ from those refreshed by the original (- original, + round-tripped): %s", where, sim.SnapshotDiff(want, got))
	}
	n, err := verifyStore(acc, b)
	us.proofs += n
	if err != nil {
		return stats.Failf(key, "%s: after refreshing with the round-tripped update: %v", where, err)
	}
	if err := sim.EqualLists("tree node", treeNodeList(u), treeNodeList(u2)); err != nil {
		return stats.Failf(key, "%s: ForEachTreeNode of the round-tripped update differs: %v", where, err)
	}
	// a subscriber's loop variable: the same JSON decoded into the variable that still holds the
	// previous update of this history must give the same update
	var re any
	switch fresh.(type) {
	case *consensus.ApplyUpdate:
		re = &us.reAU
	case *consensus.RevertUpdate:
		re = &us.reRU
	}
	if re != nil {
		rkey := "C20/update-json/reused-receiver"
		if err := safeUnmarshal(js, re); err != nil {
			return stats.Failf(rkey, "%s: json.Unmarshal into the variable holding the previous update failed: %v", where, err)
		}
		u3 := reflect.ValueOf(re).Elem().Interface().(update)
		js3, err := safeMarshal(u3)
		if err != nil {
			return stats.Failf(rkey, "%s: json.Marshal of the update parsed into a reused variable failed: %v", where, err)
		}
		if !bytes.Equal(js, js3) {
			return stats.Failf(rkey, "%s: the update parsed into the variable that held the previous update prints differently:\n first  %s\n second %s", where, clip(js), clip(js3))
		}
		b3 := pre.Clone()
		if err := stats.Safe(rkey, func() error { return apply(b3, re) }); err != nil {
			return stats.Failf(rkey, "%s: the store cannot be refreshed with the update parsed into a reused variable: %v", where, err)
		}
		if got3 := b3.Snapshot(true); !bytes.Equal(want, got3) {
			return stats.Failf(rkey, "%s: elements refreshed by the update parsed into the variable that held the previous update differ from those refreshed by the original (- original, + reused): %s", where, sim.SnapshotDiff(want, got3))
		}
		if err := sim.EqualLists("tree node", treeNodeList(u), treeNodeList(u3)); err != nil {
			return stats.Failf(rkey, "%s: ForEachTreeNode of the update parsed into a reused variable differs: %v", where, err)
		}
		if us.compared > 0 {
			us.reused++
		}
	}
	us.compared++
	if class {
		us.withUpdatedLeaves++
	}
	if !bytes.Equal(pre.Snapshot(true), want) && len(pre.CI) > 0 {
		// some element held before the block changed (proof extended / rewritten, element spent ...)
		us.refreshed++
	}
	return nil
}

func applyTo(st *sim.Store, u2 any) error { return st.Apply(*u2.(*consensus.ApplyUpdate)) }

func revertTo(numLeaves uint64) func(st *sim.Store, u2 any) error {
	return func(st *sim.Store, u2 any) error { return st.Revert(*u2.(*consensus.RevertUpdate), numLeaves) }
}

func (us *updateStats) report(rec *stats.Rec, fp uint64, extraLabels ...string) {
	nt := us.refreshed > 0 || us.withUpdatedLeaves > 0
	labels := append([]string{}, extraLabels...)
	if us.withUpdatedLeaves > 0 {
		labels = append(labels, "update:rewrites-existing-leaves(compared)")
	}
	if us.refreshed > 0 {
		labels = append(labels, "update:refreshes-held-proofs(compared)")
	}
	if us.excluded > 0 {
		labels = append(labels, "update:some-excluded(known)")
	}
	if us.reverts > 0 {
		labels = append(labels, "update:revert-updates")
	}
	if us.attestations > 0 {
		labels = append(labels, "update:attestation-elements")
	}
	rec.Case(fp, nt, labels...)
	rec.Extra("updates-round-tripped", uint64(us.updates))
	rec.Extra("updates-fully-compared", uint64(us.compared))
	rec.Extra("updates-element-proofs-verified", uint64(us.proofs))
	rec.Extra("updates-decoded-into-reused-variable", uint64(us.reused))
}

// ---------------------------------------------------------------- signed simulator chains

func drawChain(t *rapid.T) sim.ChainCase {
	max := 30
	if stats.Thorough() {
		max = 60
	}
	g := sim.GenChain(t, sim.GenOpts{
		Net:       sim.NetOpts{MaxForkHeight: rapid.SampledFrom([]int{6, 12, 25}).Draw(t, "forkSpan"), V2Only: rapid.IntRange(0, 3).Draw(t, "v2only") == 0},
		MinBlocks: 4, MaxBlocks: max, Reorgs: true, MaxReorg: 6,
		Profile: sim.Profile{Contracts: rapid.IntRange(0, 3).Draw(t, "contractWeight"), MaxTxns: 6},
	})
	c, err := g.Case.Normalize()
	if err != nil {
		panic(err)
	}
	return c
}

func checkChainExcl(c sim.ChainCase, excl bool) error {
	rec := stats.G()
	var us updateStats
	var post []*sim.Store // post[h] = store after block h (before any revert)
	kinds := map[string]bool{}
	note := func(d sim.Diffs) {
		for _, x := range d.V2FileContractElementDiffs() {
			kinds["v2-diff:"+resolutionLabel(x.Resolution)] = true
			if x.Revision != nil {
				kinds["v2-diff:revision"] = true
			}
		}
		for _, x := range d.FileContractElementDiffs() {
			if x.Resolved {
				kinds["v1-diff:resolved"] = true
			}
			if x.Revision != nil {
				kinds["v1-diff:revision"] = true
			}
		}
		if len(d.SiafundElementDiffs()) > 0 {
			kinds["siafund-diff"] = true
		}
	}
	hooks := sim.Hooks{
		Genesis: func(ch *sim.Chain, au consensus.ApplyUpdate) error {
			post = []*sim.Store{ch.Stores[0]}
			return compareUpdate("genesis", au, new(consensus.ApplyUpdate), sim.NewStore(), ch.Store, ch.Tip().Elements, applyTo, excl, &us, &ch.Blocks[0])
		},
		AfterApply: func(ch *sim.Chain, st *sim.Step, parent consensus.State, au consensus.ApplyUpdate) error {
			h := ch.Height()
			note(au)
			post = append(post[:h], ch.Stores[h])
			return compareUpdate(fmt.Sprintf("apply of block %d", h), au, new(consensus.ApplyUpdate), ch.Stores[h-1], ch.Store, ch.Tip().Elements, applyTo, excl, &us, st.Block)
		},
		AfterRevert: func(ch *sim.Chain, st *sim.Step, b types.Block, bs consensus.V1BlockSupplement, ru consensus.RevertUpdate) error {
			h := ch.Height() + 1
			us.reverts++
			tip := ch.Tip()
			return compareUpdate(fmt.Sprintf("revert of block %d", h), ru, new(consensus.RevertUpdate), post[h], ch.Store, tip.Elements, revertTo(tip.Elements.NumLeaves), excl, &us, &b)
		},
	}
	ch, err := sim.Replay(c, hooks)
	if err != nil {
		if _, ok := err.(*stats.Failure); ok {
			return err
		}
		if f := unwrapFailure(err); f != nil {
			return f
		}
		return stats.Failf("C20/replay", "%v", err)
	}
	tip := ch.Tip().Index.ID
	labels := []string{"gen:signed-chain"}
	for k := range kinds {
		labels = append(labels, k)
	}
	sort.Strings(labels)
	us.report(rec, stats.FP("chain", tip[:], len(c.Steps)), labels...)
	if rec.WantSample() {
		rec.Sample(us.refreshed > 0, map[string]any{"unit": "updates", "steps": len(c.Steps), "height": ch.Height(), "updates": us.updates, "fully-compared": us.compared, "proofs-verified": us.proofs})
	}
	return nil
}

// unwrapFailure finds a *stats.Failure inside a wrapped error.
func unwrapFailure(err error) *stats.Failure {
	for err != nil {
		if f, ok := err.(*stats.Failure); ok {
			return f
		}
		u, ok := err.(interface{ Unwrap() error })
		if !ok {
			return nil
		}
		err = u.Unwrap()
	}
	return nil
}

func checkChain(c sim.ChainCase) error { return checkChainExcl(c, true) }

func TestUpdates(t *testing.T)       { stats.Prop(t, drawChain, checkChain) }
func TestReplayUpdates(t *testing.T) { stats.Replay(t, "TestUpdates", checkChain) }

// ---------------------------------------------------------------- synthetic (unsigned) chains

// SynCase is a history of unsigned v2 blocks applied without validation (ApplyBlock does not
// validate): each apply spends the unspent siacoin leaves selected by the bitmask (bit i = i-th
// oldest unspent output) and creates Grow-1 outputs plus the chain index leaf.
type SynCase struct {
	GenesisOutputs int     `json:"genesisOutputs"`
	Ops            []SynOp `json:"ops"`
}

type SynOp struct {
	Revert bool   `json:"revert,omitempty"`
	Spend  uint64 `json:"spend"`
	Grow   int    `json:"grow"`
}

func synNetwork() *consensus.Network {
	n := &consensus.Network{Name: "syn", InitialTarget: sim.MaxTarget, BlockInterval: 10 * time.Minute}
	n.InitialCoinbase, n.MinimumCoinbase = types.Siacoins(1), types.Siacoins(1)
	n.HardforkASIC.NonceFactor = 1
	n.HardforkASIC.OakTarget = sim.MaxTarget
	n.HardforkASIC.OakTime = 10000 * time.Second
	n.HardforkOak.GenesisTimestamp = time.Unix(1_600_000_000, 0)
	n.HardforkV2.RequireHeight, n.HardforkV2.FinalCutHeight = 1, 1
	n.HardforkFoundation.PrimaryAddress = types.VoidAddress
	n.HardforkFoundation.FailsafeAddress = types.VoidAddress
	return n
}

func checkSynExcl(c SynCase, excl bool) error {
	rec := stats.G()
	var us updateStats
	n := synNetwork()
	genesis := types.Block{Timestamp: n.HardforkOak.GenesisTimestamp}
	if c.GenesisOutputs > 0 {
		var txn types.Transaction
		for i := 0; i < c.GenesisOutputs; i++ {
			txn.SiacoinOutputs = append(txn.SiacoinOutputs, types.SiacoinOutput{Value: types.NewCurrency64(uint64(i) + 1), Address: types.Address{byte(i), 1}})
		}
		genesis.Transactions = []types.Transaction{txn}
	}
	ch, au, err := sim.NewChain(n, genesis)
	if err != nil {
		return stats.Failf("C20/syn", "genesis: %v", err)
	}
	if err := compareUpdate("genesis", au, new(consensus.ApplyUpdate), sim.NewStore(), ch.Store, ch.Tip().Elements, applyTo, excl, &us, &genesis); err != nil {
		return err
	}
	post := []*sim.Store{ch.Stores[0]}
	serial := uint64(1000)
	merges := 0
	for i, op := range c.Ops {
		if op.Revert {
			if ch.Height() == 0 {
				continue
			}
			h := ch.Height()
			rb := ch.Blocks[h]
			ru, err := ch.Revert()
			if err != nil {
				return stats.Failf("C20/syn", "op %d revert: %v", i, err)
			}
			us.reverts++
			tip := ch.Tip()
			if err := compareUpdate(fmt.Sprintf("op %d (revert of block %d)", i, h), ru, new(consensus.RevertUpdate), post[h], ch.Store, tip.Elements, revertTo(tip.Elements.NumLeaves), excl, &us, &rb); err != nil {
				return err
			}
			continue
		}
		parent := ch.Tip()
		unspent := ch.Store.SortedSC()
		sort.SliceStable(unspent, func(a, b int) bool { return unspent[a].StateElement.LeafIndex < unspent[b].StateElement.LeafIndex })
		var txn types.V2Transaction
		for j, e := range unspent {
			if j < 64 && op.Spend&(1<<uint(j)) != 0 {
				txn.SiacoinInputs = append(txn.SiacoinInputs, types.V2SiacoinInput{Parent: e.Copy()})
			}
		}
		grow := op.Grow
		if grow < 1 {
			grow = 1
		}
		for j := 0; j < grow-1; j++ {
			serial++
			txn.SiacoinOutputs = append(txn.SiacoinOutputs, types.SiacoinOutput{Value: types.NewCurrency64(serial), Address: types.Address{byte(serial), byte(serial >> 8), 2}})
		}
		blk := types.Block{ParentID: parent.Index.ID, Timestamp: parent.PrevTimestamps[0].Add(n.BlockInterval), V2: &types.V2BlockData{Height: parent.Index.Height + 1}}
		if len(txn.SiacoinInputs) > 0 || len(txn.SiacoinOutputs) > 0 {
			blk.V2.Transactions = []types.V2Transaction{txn}
		}
		au, err := ch.ApplyUnchecked(blk, consensus.V1BlockSupplement{})
		if err != nil {
			return stats.Failf("C20/syn", "op %d apply: %v", i, err)
		}
		h := ch.Height()
		post = append(post[:h], ch.Stores[h])
		where := fmt.Sprintf("op %d (apply of block %d: spend=%b grow=%d on %d leaves)", i, h, op.Spend, grow, parent.Elements.NumLeaves)
		if err := compareUpdate(where, au, new(consensus.ApplyUpdate), ch.Stores[h-1], ch.Store, ch.Tip().Elements, applyTo, excl, &us, &blk); err != nil {
			return err
		}
		if o, nn := parent.Elements.NumLeaves, ch.Tip().Elements.NumLeaves; len(txn.SiacoinInputs) > 0 && (o^nn) > o {
			merges++
		}
	}
	labels := []string{"gen:synthetic"}
	if merges > 0 {
		labels = append(labels, "synthetic:spend+tree-merge")
	}
	us.report(rec, stats.FP("syn", c.GenesisOutputs, fmt.Sprint(c.Ops)), labels...)
	if rec.WantSample() && us.refreshed > 0 {
		rec.Sample(true, map[string]any{"unit": "updates-synthetic", "case": c, "updates": us.updates, "fully-compared": us.compared})
	}
	return nil
}

func checkSyn(c SynCase) error { return checkSynExcl(c, true) }

func drawSyn(t *rapid.T) SynCase {
	c := SynCase{GenesisOutputs: rapid.IntRange(0, 40).Draw(t, "genesis")}
	nOps := rapid.IntRange(2, 30).Draw(t, "nOps")
	depth := 0
	for i := 0; i < nOps; i++ {
		if depth > 0 && rapid.IntRange(0, 3).Draw(t, "revert") == 0 {
			c.Ops = append(c.Ops, SynOp{Revert: true})
			depth--
			continue
		}
		grow := rapid.IntRange(1, 12).Draw(t, "grow")
		switch rapid.IntRange(0, 9).Draw(t, "growClass") {
		case 0:
			grow = rapid.IntRange(13, 200).Draw(t, "growBig")
		case 1:
			grow = 1 << uint(rapid.IntRange(0, 7).Draw(t, "growPow"))
		case 2:
			grow = 1<<uint(rapid.IntRange(1, 7).Draw(t, "growPow")) - 1
		}
		c.Ops = append(c.Ops, SynOp{Spend: rapid.Uint64().Draw(t, "spend") & rapid.Uint64().Draw(t, "spendMask"), Grow: grow})
		if depth < 8 {
			depth++
		}
	}
	return c
}

func TestUpdatesSynthetic(t *testing.T)       { stats.Prop(t, drawSyn, checkSyn) }
func TestReplayUpdatesSynthetic(t *testing.T) { stats.Replay(t, "TestUpdatesSynthetic", checkSyn) }
