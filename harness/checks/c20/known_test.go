package c20

import (
	"fmt"
	"go/ast"
	goparser "go/parser"
	"go/token"
	"os"
	"path/filepath"
	"reflect"
	"sort"
	"strings"
	"testing"

	rhp4 "go.sia.tech/core/rhp/v4"
	"go.sia.tech/core/types"
	"verif/harness/gen"
	"verif/harness/stats"
)

// TestKnown: minimal reproductions of the defects found on the pinned tree. Each probe runs the
// same pure checker as the property, with the exclusion switched off, on the minimal input.
func TestKnown(t *testing.T) {
	hex66 := strings.Repeat("ab", 33)
	stats.ProbeKnown(t, keyCI, "types.ChainIndex.UnmarshalText / ParseChainIndex panic (index out of range) on an ID part with more than 64 hex digits, e.g. \"5::\"+66 hex digits, instead of returning an error", func() error {
		for _, s := range []string{"5::" + hex66, "0::" + strings.Repeat("00", 40)} {
			var ci types.ChainIndex
			err := safeErr(func() error { return ci.UnmarshalText([]byte(s)) })
			if isPanic(err) {
				return fmt.Errorf("ChainIndex.UnmarshalText(%q): %v", s, err)
			}
			if err == nil {
				return fmt.Errorf("ChainIndex.UnmarshalText(%q) accepted an over-long id", s)
			}
		}
		return nil
	})
	stats.ProbeKnown(t, keyAcct, "rhp/v4 Account.UnmarshalText panics (index out of range) on more than 64 hex digits, e.g. \"ed25519:\"+66 hex digits, instead of returning an error", func() error {
		for _, s := range []string{"ed25519:" + hex66, hex66, "ed25519" + strings.Repeat("0", 64)} {
			var a rhp4.Account
			err := safeErr(func() error { return a.UnmarshalText([]byte(s)) })
			if isPanic(err) {
				return fmt.Errorf("rhp4.Account.UnmarshalText(%q): %v", s, err)
			}
			if err == nil {
				return fmt.Errorf("rhp4.Account.UnmarshalText(%q) accepted an over-long key", s)
			}
		}
		return nil
	})
	stats.ProbeKnown(t, keyLeaf, "ApplyUpdate/RevertUpdate JSON drops the element hash and spent flag of updated leaves: proofs refreshed with a round-tripped update no longer verify", func() error {
		// two genesis outputs + chain index; block 1 spends output 0: output 1's proof must pick up the
		// hash of the now-spent leaf 0, which the round-tripped update can no longer compute
		for _, c := range []SynCase{
			{GenesisOutputs: 2, Ops: []SynOp{{Spend: 1, Grow: 1}}},
			{GenesisOutputs: 3, Ops: []SynOp{{Spend: 2, Grow: 2}, {Revert: true}}},
		} {
			if err := checkSynExcl(c, false); err != nil {
				return err
			}
		}
		return nil
	})
	stats.ProbeKnown(t, keySigs, "SpendPolicy.String prints uc(...) with SignaturesRequired > 255 but ParseSpendPolicy reads the count with bit size 8: uc(0,[],300) is refused", func() error {
		p := types.SpendPolicy{Type: types.PolicyTypeUnlockConditions{SignaturesRequired: 300}}
		_, err := policyString(p, false)
		if err == nil {
			p = types.SpendPolicy{Type: types.PolicyTypeUnlockConditions{Timelock: 1, PublicKeys: []types.UnlockKey{types.PublicKey{1}.UnlockKey()}, SignaturesRequired: 1 << 63}}
			_, err = policyString(p, false)
		}
		return err
	})
	stats.ProbeKnown(t, keyDelim, "SpendPolicy.String prints a uc(...) key whose algorithm specifier contains ( ) , [ or ] as a quoted string that the tokenizer of ParseSpendPolicy splits: algorithm \"a,b\" is refused", func() error {
		for _, alg := range []string{"a,b", "a(b", "a)b", "a[b", "a]b"} {
			p := types.SpendPolicy{Type: types.PolicyTypeUnlockConditions{PublicKeys: []types.UnlockKey{{Algorithm: types.NewSpecifier(alg), Key: []byte{1, 2}}}, SignaturesRequired: 1}}
			if _, err := policyString(p, false); err != nil {
				return err
			}
		}
		return nil
	})
	stats.ProbeKnown(t, keyStale, "types.Specifier.UnmarshalText copies the new bytes over the receiver without clearing it: parsing \"ab\" into a specifier holding \"ed25519\" gives \"ab25519\" (also through UnlockKey.UnmarshalText and json.Unmarshal into a reused unlock key)", func() error {
		k := lookupKind("types.Specifier")
		v, old := reflect.ValueOf(types.NewSpecifier("ab")), reflect.ValueOf(types.SpecifierEd25519)
		if err := dirtyReceiver(k, v, old, "ab", false); err != nil {
			return err
		}
		uk := lookupKind("types.UnlockKey")
		return dirtyReceiver(uk, reflect.ValueOf(types.UnlockKey{Algorithm: types.NewSpecifier("x"), Key: []byte{0}}),
			reflect.ValueOf(types.UnlockKey{Algorithm: types.SpecifierEd25519, Key: []byte{9}}), "x:00", false)
	})
}

// ---------------------------------------------------------------- completeness guard

type repoType struct {
	key     string
	methods []string
	tags    bool
	file    string
}

// scanRepo lists every named type of the library packages that has a JSON/text method or a
// struct field with a json tag.
func scanRepo(dir string) ([]repoType, error) {
	found := map[string]*repoType{}
	get := func(key, file string) *repoType {
		if found[key] == nil {
			found[key] = &repoType{key: key, file: file}
		}
		return found[key]
	}
	pk := func(rel string) string {
		switch filepath.ToSlash(rel) {
		case "rhp/v2":
			return "rhp2"
		case "rhp/v3":
			return "rhp3"
		case "rhp/v4":
			return "rhp4"
		}
		return filepath.ToSlash(rel)
	}
	fset := token.NewFileSet()
	err := filepath.WalkDir(dir, func(path string, d os.DirEntry, err error) error {
		if err != nil {
			return err
		}
		if d.IsDir() {
			if n := d.Name(); path != dir && (strings.HasPrefix(n, ".") || n == "testdata" || n == "internal") {
				return filepath.SkipDir
			}
			return nil
		}
		if !strings.HasSuffix(path, ".go") || strings.HasSuffix(path, "_test.go") {
			return nil
		}
		f, err := goparser.ParseFile(fset, path, nil, goparser.SkipObjectResolution)
		if err != nil {
			return err
		}
		rel, _ := filepath.Rel(dir, filepath.Dir(path))
		rf, _ := filepath.Rel(dir, path)
		p := pk(rel)
		for _, decl := range f.Decls {
			switch x := decl.(type) {
			case *ast.FuncDecl:
				if x.Recv == nil || len(x.Recv.List) != 1 {
					continue
				}
				switch x.Name.Name {
				case "MarshalJSON", "UnmarshalJSON", "MarshalText", "UnmarshalText":
				default:
					continue
				}
				rt := x.Recv.List[0].Type
				if st, ok := rt.(*ast.StarExpr); ok {
					rt = st.X
				}
				if id, ok := rt.(*ast.Ident); ok {
					r := get(p+"."+id.Name, rf)
					r.methods = append(r.methods, x.Name.Name)
				}
			case *ast.GenDecl:
				for _, spec := range x.Specs {
					ts, ok := spec.(*ast.TypeSpec)
					if !ok {
						continue
					}
					st, ok := ts.Type.(*ast.StructType)
					if !ok {
						continue
					}
					for _, fl := range st.Fields.List {
						if fl.Tag != nil && strings.Contains(fl.Tag.Value, `json:"`) {
							get(p+"."+ts.Name.Name, rf).tags = true
						}
					}
				}
			}
		}
		return nil
	})
	if err != nil {
		return nil, err
	}
	var out []repoType
	for _, r := range found {
		out = append(out, *r)
	}
	sort.Slice(out, func(i, j int) bool { return out[i].key < out[j].key })
	return out, nil
}

// TestTable: the type table covers every type of the repository that has a JSON/text method or
// json tags, and the zero / minimal value of every row passes its checks.
func TestTable(t *testing.T) {
	rec := stats.G()
	rts, err := scanRepo(gen.RepoDir())
	if err != nil {
		t.Fatalf("scanning %s: %v", gen.RepoDir(), err)
	}
	if len(rts) < 80 {
		t.Fatalf("scanning %s found only %d types with a JSON/text form: wrong directory?", gen.RepoDir(), len(rts))
	}
	skip := notCovered()
	for _, r := range rts {
		if lookupKind(r.key) == nil && skip[r.key] == "" {
			t.Errorf("table incomplete: %s (%s; methods %v, json tags %v) has a JSON/text form but is neither a row of the C20 type table nor listed in notCovered()", r.key, r.file, r.methods, r.tags)
		}
	}
	for _, k := range Kinds() {
		for name, v := range map[string]reflect.Value{"zero": reflect.Zero(k.Type), "minimal": gen.Minimal(k.Type)} {
			if k.Type == tPolicy && name == "zero" {
				continue // a policy without a type is not a value (encoders panic by documented design)
			}
			hasNilVariant := false
			if name == "zero" {
				var ps, rs []reflect.Value
				collect(v, tPolicy, &ps)
				collect(v, tResolution, &rs)
				hasNilVariant = len(ps) > 0 || len(rs) > 0
			}
			if hasNilVariant {
				continue
			}
			c := Case{Kind: k.Name, Seed: 4, live: v}
			if err := stats.Safe("", func() error { return checkJSON(c) }); err != nil {
				t.Errorf("%s value of %s: %v", name, k.Name, err)
			}
			if textKinds(k) {
				if err := stats.Safe("", func() error { return checkText(c) }); err != nil {
					t.Errorf("%s value of %s: %v", name, k.Name, err)
				}
			}
		}
	}
	rec.Extra("repo-types-with-json-or-text-form", uint64(len(rts)))
	rec.Extra("table-rows", uint64(len(Kinds())))
	nText := 0
	for _, k := range Kinds() {
		if k.Text {
			nText++
		}
	}
	rec.Extra("table-rows-with-text-form", uint64(nText))
}
