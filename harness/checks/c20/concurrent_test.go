package c20

import (
	"testing"

	"verif/harness/stats"
)

// Text and JSON forms computed by several goroutines at once (each on its own generated value) equal the forms computed
// alone: see stats.PropConc. Six goroutines, a dozen rounds each.
func TestConcurrentJSON(t *testing.T) {
	stats.PropConc(t, drawFor(myKinds(func(k *Kind) bool { return k.JSON })), checkJSON, 6, 12)
}
func TestConcurrentText(t *testing.T) {
	stats.PropConc(t, drawText(myKinds(textKinds)), checkText, 6, 12)
}
func TestConcurrentPolicy(t *testing.T) { stats.PropConc(t, drawPolicy, checkPolicy, 6, 12) }

func TestReplayConcurrentJSON(t *testing.T)   { stats.Replay(t, "TestConcurrentJSON", checkJSON) }
func TestReplayConcurrentText(t *testing.T)   { stats.Replay(t, "TestConcurrentText", checkText) }
func TestReplayConcurrentPolicy(t *testing.T) { stats.Replay(t, "TestConcurrentPolicy", checkPolicy) }
