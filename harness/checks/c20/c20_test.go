// C20 — text and JSON forms round-trip and reject corrupted identifiers.
//
// Units
//
//	TestJSON      for every row of the type table (table_test.go: every type the property names,
//	              plus every rhp/v4 object with json tags): v -> json.Marshal -> json.Unmarshal into a
//	              fresh value == v under gen.Norm (DESIGN Appendix C), decoded revisions carry the
//	              sentinel payout, and re-marshalling the decoded value gives the same bytes.
//	TestText      MarshalText/UnmarshalText, String/Parse* (ParseCurrency, ParseAddress,
//	              ParseChainIndex, SettingsID.LoadString) for every type that has them, plus the
//	              expected text recomputed independently (hex, BLAKE2b checksum from x/crypto), and
//	              parsing into a receiver that already holds another value of the type.
//	TestPolicy    SpendPolicy: ParseSpendPolicy(p.String()) == p and the JSON object form, with
//	              deep / wide thresholds, uc policies with 64-bit signature counts and specifiers of
//	              every shape, times in years 0..9999.
//	TestReject    address strings: every single-character substitution (76 positions x 29 characters)
//	              is rejected or parses to the same address (hex case); identifiers of every
//	              hash/ID/key/signature/chain-index/account type with wrong length, prefix or alphabet
//	              are rejected with an error (no panic) through UnmarshalText, Parse* and JSON; the same
//	              for the fixed-size hex fields that only exist inside JSON objects (storage proof
//	              leaves, policy preimages).
//	TestUpdates / TestUpdatesSynthetic
//	              every ApplyUpdate / RevertUpdate of generated chains (signed simulator chains with
//	              reorgs; unsigned synthetic chains with random spend masks and growth) goes through
//	              JSON; the round-tripped update must report the same diffs and refresh every tracked
//	              element (live, spent-tracked, chain index) to exactly the proofs the original
//	              produces, all of which verify against the state's accumulator (recomputed with
//	              x/crypto BLAKE2b), and report the same tree nodes; the attestation elements in the
//	              JSON are the block's attestations.
//	TestFixpoint  mutated printed forms: parse must not panic; whatever parses must print and parse
//	              back to the same value (stands in for the native fuzz campaign of the design).
//	TestTable     completeness guard (go/parser scan of the repository) + zero/minimal values.
//	TestKnown     minimal reproductions of the defects found on the pinned tree.
//
// Sensitivity (tools/with_mutant.sh <patch> -- ./run C20 quick on the tree with all fixes; wall seconds
// of the whole sharded run incl. ~15-25 s rebuild, machine shared with other builders; "by" = first failing oracle):
//
//	M01 Address.UnmarshalText compares 5 of the 6 checksum bytes ............... killed 66 s  reject (substitution in the last checksum byte accepted)
//	M02 Specifier.String without strconv.Quote ................................. killed 46 s  policy string / json
//	M03 FileContractRevision.UnmarshalJSON does not restore the sentinel payout . killed 34 s  json sentinel
//	M04 V2FileContractElementDiff.UnmarshalJSON tag typo ("create") ............. killed 55 s  json
//	M05 unmarshalHex length check removed (panic on over-long hex) .............. killed 26 s  reject (panic)
//	M06 V2FileContractElementDiff splice labels a storage proof "renewal" ....... killed 69 s  json
//	M07 unmarshalHex accepts short input ........................................ killed 37 s  text / reject
//	M08 PublicKey.UnmarshalText does not check the algorithm prefix ............. killed 34 s  reject (wrong prefix accepted)
//	M09 ParseCurrency unit KS = 10^28 ........................................... killed 40 s  text (ParseCurrency(String()))
//	M10 SatisfiedPolicy.UnmarshalJSON drops the signatures ...................... killed 60 s  json
//	M11 elementLeaf.UnmarshalJSON drops the spent flag (half of F8) ............. killed 71 s  updates (re-print; proofs)
//	M12 ApplyUpdate.UnmarshalJSON drops treeGrowth .............................. killed 33 s  updates
//	M13 RevertUpdate.UnmarshalJSON drops numLeaves .............................. killed 41 s  updates
//	M14 thresh(n,...) parsed with 7 bits ........................................ killed 27 s  policy string
//	M15 Specifier.UnmarshalText rejects 16-byte specifiers ...................... killed 39 s  json
//	M16 UnlockKey.UnmarshalText splits at the first colon ....................... killed 41 s  json (quoted specifier with ':')
//	M17 ElementAccumulator.UnmarshalJSON re-uses the first tree ................. killed 39 s  json
//	M18 State.OakTime tagged json:"-" ........................................... killed 70 s  json
//	M19 rhp4 Account.UnmarshalText accepts short input .......................... killed 38 s  reject
//	M20 ProtocolVersion.UnmarshalText swaps minor/patch ......................... killed 50 s  json
//	M21 after(t) JSON in milliseconds on the marshal side ....................... killed 82 s  json
//	M22 rhp2 HostSettings.MarshalJSON omits siamuxport .......................... killed 41 s  json
//	M23 Address.String checksums 31 bytes ....................................... killed 36 s  json / text form
//	M24 address checksum 5 bytes on BOTH sides (round trip intact) .............. killed 33 s  text form (independent statement)
//	M25 ChainIndex height parsed with base 0 ("0x.." accepted) .................. killed 27 s  reject
//	M26 Transaction.MarshalJSON output id shadows the address ................... killed 38 s  json
//	M27 StorageProof.MarshalJSON truncates the leaf ............................. killed 76 s  json
//	M28 uc(...) signature count printed as uint32 ............................... killed 45 s  policy string
//	M29 V2FileContractResolution.UnmarshalJSON: expiration decoded as proof ..... killed 68 s  json
//	M30 policy tokenizer ignores quotes again (fix of F9b reverted) ............. killed 30 s  policy string + TestKnown
//	M31 Specifier.UnmarshalText does not clear the receiver (fix reverted) ...... killed 60 s  text reused receiver + TestKnown
//	M32 Specifier.String trims leading NULs too ................................. killed 79 s  json
//	M33 RevertUpdate.MarshalJSON drops the attestation elements ................. killed 86 s  updates (survived before the attestation oracle was added)
//	M34 ApplyUpdate.UnmarshalJSON drops the attestation elements ................ killed 70 s  updates
//	M35 FileContractElementDiff.Revision tagged json:"-" ........................ killed 85 s  json
//	M36 StorageProof.UnmarshalJSON accepts a short leaf ......................... killed 41 s  reject (survived until the JSON hex fields were added to TestReject)
//	M37 SatisfiedPolicy.UnmarshalJSON accepts a short preimage .................. killed 23 s  reject (same)
//
// No survivor is left among the mutants tried. Not detectable by construction: a json tag renamed on a
// struct shared by both directions (the round trip is intact and no wire format is specified).
package c20

import (
	"bytes"
	"encoding/hex"
	"encoding/json"
	"fmt"
	"reflect"
	"strings"
	"testing"
	"time"

	"go.sia.tech/core/consensus"
	"go.sia.tech/core/types"
	"pgregory.net/rapid"
	"verif/harness/gen"
	"verif/harness/stats"
)

func TestMain(m *testing.M) {
	// generated times are instants; print them in UTC whatever zone the machine is in (historical
	// local-mean-time offsets with seconds have no RFC 3339 form, which is not the library's concern)
	time.Local = time.UTC
	stats.Main(m)
}

// Case is one generated value of one table row. The value travels as a
// library-independent tree (gen.Dump), never through the forms under test.
type Case struct {
	Kind  string          `json:"kind"`
	Seed  uint64          `json:"seed"`
	Value json.RawMessage `json:"value"`
	Other json.RawMessage `json:"other,omitempty"` // TestText: a second value of the same type (the receiver's previous content)

	live, live2 reflect.Value
}

type caseJSON struct {
	Kind  string          `json:"kind"`
	Seed  uint64          `json:"seed"`
	Value json.RawMessage `json:"value"`
	Other json.RawMessage `json:"other,omitempty"`
}

func (c Case) MarshalJSON() ([]byte, error) {
	v, o := c.Value, c.Other
	if v == nil && c.live.IsValid() {
		v = gen.DumpJSON(c.live)
	}
	if o == nil && c.live2.IsValid() {
		o = gen.DumpJSON(c.live2)
	}
	return json.Marshal(caseJSON{c.Kind, c.Seed, v, o})
}

func (c *Case) UnmarshalJSON(b []byte) error {
	var j caseJSON
	if err := json.Unmarshal(b, &j); err != nil {
		return err
	}
	*c = Case{Kind: j.Kind, Seed: j.Seed, Value: j.Value, Other: j.Other}
	return nil
}

// other returns the second value of the case, if it has one.
func (c Case) other(t reflect.Type) (reflect.Value, bool, error) {
	if c.live2.IsValid() {
		v := reflect.New(t).Elem()
		v.Set(c.live2)
		return v, true, nil
	}
	if c.Other == nil {
		return reflect.Value{}, false, nil
	}
	v, err := gen.LoadJSON(t, c.Other)
	return v, err == nil, err
}

func (c Case) value(t reflect.Type) (reflect.Value, error) {
	if c.live.IsValid() {
		v := reflect.New(t).Elem()
		v.Set(c.live)
		return v, nil
	}
	return gen.LoadJSON(t, c.Value)
}

func genOpts() gen.Opts {
	o := gen.Opts{UTF8: true}
	if stats.Thorough() {
		o.Fuel = 60
		o.BigLen = 24
	}
	return o
}

// uniform draws an index in [0, n) from fair coin flips (rapid's integer
// generators favour small values, which would starve most rows).
func uniform(t *rapid.T, n int) int {
	x := 0
	for try := 0; try < 6; try++ {
		x = 0
		for b := 1; b < n; b <<= 1 {
			x <<= 1
			if rapid.Bool().Draw(t, "u") {
				x |= 1
			}
		}
		if x < n {
			return x
		}
	}
	return x % n
}

func splitmix(x *uint64) uint64 {
	*x += 0x9E3779B97F4A7C15
	z := *x
	z = (z ^ (z >> 30)) * 0xBF58476D1CE4E5B9
	z = (z ^ (z >> 27)) * 0x94D049BB133111EB
	return z ^ (z >> 31)
}

func myKinds(filter func(*Kind) bool) []*Kind {
	idx, n := stats.Shard()
	var all, mine []*Kind
	for _, k := range Kinds() {
		if filter(k) {
			all = append(all, k)
		}
	}
	for i, k := range all {
		if i%n == idx {
			mine = append(mine, k)
		}
	}
	if only := stats.EnvInt("C20_ONLY", -1); only >= 0 && only < len(all) {
		return []*Kind{all[only]}
	}
	return mine
}

func drawFor(ks []*Kind) func(t *rapid.T) Case {
	return func(t *rapid.T) Case {
		k := ks[uniform(t, len(ks))]
		v := gen.Value(t, k.Type, genOpts())
		c := Case{Kind: k.Name, Seed: rapid.Uint64().Draw(t, "seed"), live: v}
		if c.Seed%16 == 0 {
			// harness self-check: the replay form reproduces the value exactly
			back, err := gen.LoadJSON(k.Type, gen.DumpJSON(v))
			if err != nil {
				t.Fatalf("harness: snapshot of %s does not load: %v", k.Name, err)
			}
			if !reflect.DeepEqual(back.Interface(), v.Interface()) {
				t.Fatalf("harness: snapshot of %s does not reproduce the value: %s", k.Name, gen.Diff(v, back))
			}
		}
		return c
	}
}

func clip(b []byte) string {
	if len(b) > 1500 {
		return string(b[:1500]) + fmt.Sprintf("...(%d bytes)", len(b))
	}
	return string(b)
}

// ---------------------------------------------------------------- features (evidence + non-trivial rule)

var (
	tSpecifier  = ty[types.Specifier]()
	tRevision   = ty[types.FileContractRevision]()
	tCurrency   = ty[types.Currency]()
	tPolicy     = ty[types.SpendPolicy]()
	tResolution = ty[types.V2FileContractResolution]()
	tV2Diff     = ty[consensus.V2FileContractElementDiff]()
	tSP         = ty[types.StorageProof]()
	tV2SP       = ty[types.V2StorageProof]()
	tSat        = ty[types.SatisfiedPolicy]()
	tTxn        = ty[types.Transaction]()
	tV2Txn      = ty[types.V2Transaction]()
	tSCI        = ty[types.SiacoinInput]()
	tSFI        = ty[types.SiafundInput]()
	tAcc        = ty[consensus.ElementAccumulator]()
	tWork       = ty[consensus.Work]()
	tAddress    = ty[types.Address]()
	tUnlockKey  = ty[types.UnlockKey]()
	tChainIndex = ty[types.ChainIndex]()
	tUC         = ty[types.UnlockConditions]()
)

type features map[string]bool

func resolutionLabel(r types.V2FileContractResolutionType) string {
	switch r.(type) {
	case *types.V2FileContractRenewal:
		return "renewal"
	case *types.V2StorageProof:
		return "storage-proof"
	case *types.V2FileContractExpiration:
		return "expiration"
	case nil:
		return "none"
	}
	return "?"
}

func policyFeatures(p types.SpendPolicy, depth int, f features) {
	switch pt := p.Type.(type) {
	case types.PolicyTypeThreshold:
		if depth >= 1 {
			f["policy:nested-threshold"] = true
		}
		if depth >= 8 {
			f["policy:depth>=8"] = true
		}
		if len(pt.Of) >= 200 {
			f["policy:wide-threshold"] = true
		}
		if pt.Of == nil {
			f["policy:nil-of"] = true
		}
		for _, sp := range pt.Of {
			policyFeatures(sp, depth+1, f)
		}
	case types.PolicyTypeUnlockConditions:
		f["policy:uc"] = true
		if pt.SignaturesRequired > 255 {
			f["policy:uc-sigs>255"] = true
		}
		for _, k := range pt.PublicKeys {
			if k.Algorithm != types.SpecifierEd25519 && k.Algorithm != types.SpecifierEntropy {
				f["policy:uc-unknown-algorithm"] = true
			}
			if needsQuote(k.Algorithm) {
				f["quoted-specifier"] = true
			}
			if hasDelim(k.Algorithm) {
				f["policy:uc-specifier-with-delimiter"] = true
			}
		}
	case types.PolicyTypeAfter:
		f["policy:after"] = true
	case types.PolicyTypeOpaque:
		f["policy:opaque"] = true
	case types.PolicyTypeHash:
		f["policy:hash"] = true
	case types.PolicyTypePublicKey:
		f["policy:pk"] = true
	case types.PolicyTypeAbove:
		f["policy:above"] = true
	}
}

// walkFeatures records which hand-written marshaler branches a value exercises.
func walkFeatures(v reflect.Value, f features) {
	t := v.Type()
	switch t {
	case tSpecifier:
		if needsQuote(v.Interface().(types.Specifier)) {
			f["quoted-specifier"] = true
		}
		return
	case tCurrency:
		c := v.Interface().(types.Currency)
		if c.Hi != 0 {
			f["currency>=2^64"] = true
		}
		if c.Hi == ^uint64(0) && c.Lo == ^uint64(0) {
			f["currency-max"] = true
		}
		return
	case tPolicy:
		if p := v.Interface().(types.SpendPolicy); p.Type != nil {
			policyFeatures(p, 0, f)
		}
		return
	case tRevision:
		f["revision-sentinel-payout"] = true
	case tResolution:
		f["resolution:"+resolutionLabel(v.Interface().(types.V2FileContractResolution).Resolution)] = true
	case tV2Diff:
		d := v.Interface().(consensus.V2FileContractElementDiff)
		f["diff-splice:"+resolutionLabel(d.Resolution)] = true
		if d.Revision != nil {
			f["diff-revision"] = true
		}
	case tSP, tV2SP:
		f["storage-proof-leaf-hex"] = true
	case tSat:
		if len(v.Interface().(types.SatisfiedPolicy).Preimages) > 0 {
			f["preimages-hex"] = true
		}
	case tTxn:
		f["txn-id-splice"] = true
	case tV2Txn:
		f["v2txn-id-splice"] = true
	case tSCI, tSFI:
		f["input-address-splice"] = true
	case tAcc:
		if v.Interface().(consensus.ElementAccumulator).NumLeaves != 0 {
			f["accumulator-packed-trees"] = true
		}
	case tWork:
		f["work-decimal"] = true
		return
	case tAddress:
		f["address-checksum"] = true
		return
	case tUnlockKey:
		uk := v.Interface().(types.UnlockKey)
		if uk.Algorithm != types.SpecifierEd25519 && uk.Algorithm != types.SpecifierEntropy {
			f["unlock-key:unknown-algorithm"] = true
		}
		f["unlock-key-text"] = true
	case tChainIndex:
		f["chain-index"] = true
	case tUC:
		if v.Interface().(types.UnlockConditions).SignaturesRequired > 1<<32 {
			f["uc:64-bit-signature-count"] = true
		}
	}
	switch t.Kind() {
	case reflect.Struct:
		for i := 0; i < t.NumField(); i++ {
			if t.Field(i).PkgPath == "" {
				walkFeatures(v.Field(i), f)
			}
		}
	case reflect.Slice:
		if v.IsNil() {
			f["nil-slice"] = true
		} else if v.Len() == 0 {
			f["empty-slice"] = true
		}
		if t.Elem().Kind() != reflect.Uint8 {
			for i := 0; i < v.Len(); i++ {
				walkFeatures(v.Index(i), f)
			}
		}
	case reflect.Array:
		if t.Elem().Kind() != reflect.Uint8 {
			for i := 0; i < v.Len(); i++ {
				walkFeatures(v.Index(i), f)
			}
		} else if t.Len() >= 16 {
			f["hex-identifier"] = true
		}
	case reflect.Pointer:
		if !v.IsNil() {
			walkFeatures(v.Elem(), f)
		}
	case reflect.Interface:
		if !v.IsNil() && t.String() != "error" {
			e := v.Elem()
			if e.Kind() == reflect.Pointer {
				if !e.IsNil() {
					walkFeatures(e.Elem(), f)
				}
			} else {
				walkFeatures(e, f)
			}
		}
	}
}

// trivialFeatures do not by themselves make a case non-trivial.
var trivialFeatures = map[string]bool{"nil-slice": true, "empty-slice": true, "hex-identifier": true, "resolution:none": true, "diff-splice:none": true}

func (f features) labels(prefix string) (ls []string, nontrivial bool) {
	for k := range f {
		ls = append(ls, prefix+k)
		if !trivialFeatures[k] {
			nontrivial = true
		}
	}
	return
}

// collect returns, in traversal order, every value of type want inside v.
func collect(v reflect.Value, want reflect.Type, out *[]reflect.Value) {
	t := v.Type()
	if t == want {
		*out = append(*out, v)
		return
	}
	switch t.Kind() {
	case reflect.Struct:
		for i := 0; i < t.NumField(); i++ {
			if t.Field(i).PkgPath == "" {
				collect(v.Field(i), want, out)
			}
		}
	case reflect.Slice, reflect.Array:
		if t.Elem().Kind() != reflect.Uint8 {
			for i := 0; i < v.Len(); i++ {
				collect(v.Index(i), want, out)
			}
		}
	case reflect.Pointer:
		if !v.IsNil() {
			collect(v.Elem(), want, out)
		}
	case reflect.Interface:
		if !v.IsNil() && t.String() != "error" {
			collect(v.Elem(), want, out)
		}
	}
}

// ---------------------------------------------------------------- JSON

func safeMarshal(v any) (b []byte, err error) {
	p, stack := stats.NoPanic(func() { b, err = json.Marshal(v) })
	if p != nil {
		return nil, fmt.Errorf("panic: %v\n%s", p, stack)
	}
	return
}

func safeUnmarshal(b []byte, p any) (err error) {
	pv, stack := stats.NoPanic(func() { err = json.Unmarshal(b, p) })
	if pv != nil {
		return fmt.Errorf("panic: %v\n%s", pv, stack)
	}
	return
}

// jsonRoundTrip checks parse(print(v)) == v for the JSON form of one value.
func jsonRoundTrip(name string, v reflect.Value) ([]byte, error) {
	key := "C20/json/" + name
	enc, err := safeMarshal(v.Interface())
	if err != nil {
		return nil, stats.Failf(key, "%s: json.Marshal of a generated value failed: %v\n value %s", name, err, clip(gen.DumpJSON(v)))
	}
	if !json.Valid(enc) {
		return enc, stats.Failf(key, "%s: json.Marshal produced invalid JSON: %s", name, clip(enc))
	}
	p := reflect.New(v.Type())
	if err := safeUnmarshal(enc, p.Interface()); err != nil {
		return enc, stats.Failf(key, "%s: json.Unmarshal of its own output failed: %v\n json %s", name, err, clip(enc))
	}
	if d := gen.Diff(v, p.Elem()); d != "" {
		return enc, stats.Failf(key, "%s: unmarshal(marshal(v)) != v (after the documented normalisations): %s\n json %s", name, d, clip(enc))
	}
	// the parsed value owns everything in it: no element may come back marked as shared (equal in every exported field,
	// but Move / UpdateElementProof on it panic)
	if herr := gen.SharedMark(p.Elem()); herr != nil {
		return enc, stats.Failf(key+"/shared-mark", "%s: %v\n json %s", name, herr, clip(enc))
	}
	// a revision's payout is not transmitted: the only representable value is the sentinel, and
	// that is what a parsed revision must carry
	var revs []reflect.Value
	collect(p.Elem(), tRevision, &revs)
	for i, r := range revs {
		if got := r.Interface().(types.FileContractRevision).Payout; got != gen.PayoutSentinel {
			return enc, stats.Failf(key+"/sentinel", "%s: revision %d parsed from JSON has payout %d, not the sentinel 2^128-1 (the payout is not transmitted)\n json %s", name, i, got, clip(enc))
		}
	}
	// printing the parsed value gives the same text
	enc2, err := safeMarshal(p.Elem().Interface())
	if err != nil {
		return enc, stats.Failf(key, "%s: json.Marshal of the parsed value failed: %v\n json %s", name, err, clip(enc))
	}
	if !bytes.Equal(enc, enc2) {
		return enc, stats.Failf(key+"/reprint", "%s: marshal(unmarshal(marshal(v))) differs from marshal(v):\n first  %s\n second %s", name, clip(enc), clip(enc2))
	}
	return enc, nil
}

func checkJSON(c Case) error {
	rec := stats.G()
	k := lookupKind(c.Kind)
	if k == nil {
		return stats.Failf("", "harness: unknown kind %q", c.Kind)
	}
	v, err := c.value(k.Type)
	if err != nil {
		return stats.Failf("", "harness: %v", err)
	}
	enc, err := jsonRoundTrip(k.Name, v)
	if err != nil {
		return err
	}
	// the same value behind a pointer, inside a slice and inside a struct field takes the
	// same form (value- vs pointer-receiver marshalers, addressable vs not)
	if c.Seed%4 == 0 {
		w := reflect.New(reflect.StructOf([]reflect.StructField{
			{Name: "P", Type: reflect.PointerTo(k.Type), Tag: `json:"p"`},
			{Name: "S", Type: reflect.SliceOf(k.Type), Tag: `json:"s"`},
		})).Elem()
		pv := reflect.New(k.Type)
		pv.Elem().Set(v)
		w.Field(0).Set(pv)
		w.Field(1).Set(reflect.Append(reflect.MakeSlice(reflect.SliceOf(k.Type), 0, 1), v))
		wenc, err := safeMarshal(w.Interface())
		if err != nil {
			return stats.Failf("C20/json/"+k.Name, "%s: json.Marshal inside a wrapper failed: %v", k.Name, err)
		}
		want := append(append(append([]byte(`{"p":`), enc...), []byte(`,"s":[`)...), append(enc, []byte(`]}`)...)...)
		if !bytes.Equal(wenc, want) {
			return stats.Failf("C20/json/"+k.Name+"/wrapped", "%s: the JSON form behind a pointer / inside a slice differs from the plain form:\n plain   %s\n wrapped %s", k.Name, clip(enc), clip(wenc))
		}
		w2 := reflect.New(w.Type())
		if err := safeUnmarshal(wenc, w2.Interface()); err != nil {
			return stats.Failf("C20/json/"+k.Name+"/wrapped", "%s: json.Unmarshal inside a wrapper failed: %v\n json %s", k.Name, err, clip(wenc))
		}
		if d := gen.Diff(w, w2.Elem()); d != "" {
			return stats.Failf("C20/json/"+k.Name+"/wrapped", "%s: wrapped round trip differs: %s\n json %s", k.Name, d, clip(wenc))
		}
	}
	// types that parse their JSON themselves own the whole receiver: the form of the type's zero value parsed into a
	// variable that holds v must give the zero value (a reused variable, a slice element decoded into again)
	if reflect.PointerTo(k.Type).Implements(tJSONU) {
		zero := reflect.Zero(k.Type)
		if zenc, err := safeMarshal(zero.Interface()); err == nil && !bytes.Equal(zenc, enc) {
			p := reflect.New(k.Type)
			if safeUnmarshal(enc, p.Interface()) == nil && safeUnmarshal(zenc, p.Interface()) == nil {
				q := reflect.New(k.Type)
				if safeUnmarshal(zenc, q.Interface()) == nil {
					if d := gen.Diff(q.Elem(), p.Elem()); d != "" {
						return stats.Failf("C20/json/"+k.Name+"/reused-receiver", "%s: parsing %s into a variable that held a parsed value gives something else than parsing it into a fresh variable: %s\n first json %s", k.Name, clip(zenc), d, clip(enc))
					}
				}
			}
		}
	}
	f := features{}
	walkFeatures(v, f)
	labels, nt := f.labels("json:")
	labels = append(labels, "json-kind:"+k.Name)
	rec.Case(stats.FP("json", k.Name, enc), nt, labels...)
	rec.Extra("json-bytes", uint64(len(enc)))
	if nt && rec.WantSample() && len(enc) < 600 {
		rec.Sample(true, map[string]any{"unit": "json", "kind": k.Name, "json": string(enc)})
	}
	return nil
}

func TestJSON(t *testing.T) {
	ks := myKinds(func(k *Kind) bool { return k.JSON })
	if len(ks) == 0 {
		t.Skip("no kinds in this shard")
	}
	stats.Prop(t, drawFor(ks), checkJSON)
}

func TestReplayJSON(t *testing.T) { stats.Replay(t, "TestJSON", checkJSON) }

// ---------------------------------------------------------------- helpers shared by the text units

func hexOf(b []byte) string { return hex.EncodeToString(b) }

func arrayBytes(v reflect.Value) []byte {
	b := make([]byte, v.Len())
	reflect.Copy(reflect.ValueOf(b), v)
	return b
}

func quoteJSON(s string) []byte {
	var buf bytes.Buffer
	e := json.NewEncoder(&buf)
	e.SetEscapeHTML(false)
	if err := e.Encode(s); err != nil {
		panic(err)
	}
	return bytes.TrimRight(buf.Bytes(), "\n")
}

func isValidUTF8(s string) bool { return strings.ToValidUTF8(s, "\x00\x00") == s }
