// C06 — Reverting a block is the exact inverse of applying it (reorg safety).
//
// Domain: generated valid chains with reorg schedules (revert k in 1..8 tip blocks, then the same
// continuation or a competing branch, repeatedly), including blocks with same-block
// create+spend, create+revise, revise+resolve and expiring v1 contracts.
// Oracle: (1) RevertUpdate diffs == ApplyUpdate diffs of the same block, reversed, same flags
// and contents; (2) the client store after the revert equals the snapshot taken before the
// apply (ids, contents, leaf indices, proofs) and every element is accepted by the parent
// state's accumulator; (3) re-applying the same block reproduces a byte-identical state
// and identical diffs (including proofs).
package c06

import (
	"bytes"
	"fmt"
	"testing"

	"go.sia.tech/core/consensus"
	"go.sia.tech/core/types"
	"pgregory.net/rapid"
	"verif/harness/sim"
	"verif/harness/stats"
)

func TestMain(m *testing.M) { stats.Main(m) }

func draw(t *rapid.T) sim.ChainCase {
	max := 40
	if stats.Thorough() {
		max = 80
	}
	g := sim.GenChain(t, sim.GenOpts{
		Net:       sim.NetOpts{MaxForkHeight: rapid.SampledFrom([]int{6, 12, 25, 40}).Draw(t, "forkSpan"), V2Only: rapid.IntRange(0, 5).Draw(t, "v2only") == 0},
		MinBlocks: 6, MaxBlocks: max, Reorgs: true, MaxReorg: 8, Profile: sim.Profile{Contracts: rapid.IntRange(0, 3).Draw(t, "contractWeight"), MaxTxns: 6},
		OnBlock: sim.SameBlockScenarios, StrayProofs: true,
	})
	c, err := g.Case.Normalize()
	if err != nil {
		panic(err)
	}
	return c
}

type applied struct {
	state                 []byte
	sc, sf, fc, v2fc      []string
	ci                    string
	scP, sfP, fcP, v2fcP  []string
	ciP                   string
	createSpend, contract bool
}

func liveAll(cs consensus.State, st *sim.Store) error {
	acc := cs.Elements
	for _, e := range st.SC {
		if !sim.LiveSC(acc, e) {
			return fmt.Errorf("siacoin element %v (leaf %d) is not accepted by the accumulator", e.ID, e.StateElement.LeafIndex)
		}
	}
	for _, e := range st.SF {
		if !sim.LiveSF(acc, e) {
			return fmt.Errorf("siafund element %v (leaf %d) is not accepted by the accumulator", e.ID, e.StateElement.LeafIndex)
		}
	}
	for _, e := range st.V2FC {
		if !sim.LiveV2FC(acc, e) {
			return fmt.Errorf("v2 contract %v (leaf %d) is not accepted by the accumulator", e.ID, e.StateElement.LeafIndex)
		}
	}
	for _, e := range st.CI {
		if !sim.LiveCI(acc, e) {
			return fmt.Errorf("chain index %v (leaf %d) is not accepted by the accumulator", e.ChainIndex, e.StateElement.LeafIndex)
		}
	}
	if cs.Index.Height+1 < cs.Network.HardforkV2.RequireHeight {
		for _, e := range st.SortedFC() {
			ok := sim.LiveFC(cs, e, func(b *types.Block) {
				b.Timestamp = sim.NextTimestamp(cs, 0, 0)
				if cs.Index.Height+1 >= cs.Network.HardforkV2.AllowHeight {
					b.V2 = &types.V2BlockData{}
				}
				if err := sim.Seal(cs, b, types.VoidAddress); err != nil {
					panic(err)
				}
			})
			if !ok {
				return fmt.Errorf("v1 contract %v (leaf %d) is not accepted by block validation's supplement check", e.ID, e.StateElement.LeafIndex)
			}
		}
	}
	return nil
}

func check(c sim.ChainCase) error {
	rec := stats.G()
	hist := map[string]applied{} // key: height/blockID
	var stack []applied          // per height (index h-1)
	maxDepth, depth, reapplied, competing := 0, 0, 0, 0
	sawCreateSpend, sawContract := false, false
	key := func(h uint64, id types.BlockID) string { return fmt.Sprintf("%d/%v", h, id) }
	revertedAt := map[uint64]bool{}

	// a second client keeps its own copy of every element and only ever refreshes it with UpdateElementProof of the
	// apply and revert updates (it never takes elements from the diffs): after every revert its copies must be the
	// proofs the restored store holds, i.e. verify against the parent state
	fw := sim.NewFollowers(1 + len(c.Steps)%3)
	hooks := sim.Hooks{
		AfterApply: func(ch *sim.Chain, st *sim.Step, parent consensus.State, au consensus.ApplyUpdate) error {
			if err := fw.Apply(au, ch.Tip().Elements.NumLeaves, ch.Store); err != nil {
				return stats.Failf("C06/own-copies", "apply height %d: %v", ch.Height(), err)
			}
			if _, err := fw.AgreeWith(ch.Store); err != nil {
				return stats.Failf("C06/own-copies", "after applying block %d: %v", ch.Height(), err)
			}
			var a applied
			a.state = sim.StateBytes(ch.Tip())
			a.sc, a.sf, a.fc, a.v2fc, a.ci = sim.CanonDiffs(au, false)
			a.scP, a.sfP, a.fcP, a.v2fcP, a.ciP = sim.CanonDiffs(au, true)
			for _, d := range au.SiacoinElementDiffs() {
				a.createSpend = a.createSpend || (d.Created && d.Spent)
			}
			for _, d := range au.FileContractElementDiffs() {
				a.contract = a.contract || d.Revision != nil || d.Resolved
			}
			for _, d := range au.V2FileContractElementDiffs() {
				a.contract = a.contract || d.Revision != nil || d.Resolution != nil
			}
			h := ch.Height()
			k := key(h, ch.Tip().Index.ID)
			if prev, ok := hist[k]; ok {
				// same block applied again on the same parent after a revert
				reapplied++
				if !bytes.Equal(prev.state, a.state) {
					return stats.Failf("C06/reapply-state", "height %d: state after re-applying the same block differs from the first apply", h)
				}
				for _, p := range []struct {
					kind string
					x, y []string
				}{{"siacoin", prev.scP, a.scP}, {"siafund", prev.sfP, a.sfP}, {"contract", prev.fcP, a.fcP}, {"v2 contract", prev.v2fcP, a.v2fcP}, {"chain index", []string{prev.ciP}, []string{a.ciP}}} {
					if err := sim.EqualLists(p.kind, p.x, p.y); err != nil {
						return stats.Failf("C06/reapply-diffs", "height %d: diffs after re-applying the same block differ from the first apply: %v", h, err)
					}
				}
			} else if revertedAt[h] {
				competing++
			}
			hist[k] = a
			stack = append(stack[:h-1], a)
			depth = 0
			return nil
		},
		AfterRevert: func(ch *sim.Chain, st *sim.Step, b types.Block, bs consensus.V1BlockSupplement, ru consensus.RevertUpdate) error {
			h := ch.Height() + 1 // height of the reverted block
			a := stack[h-1]
			stack = stack[:h-1]
			revertedAt[h] = true
			depth++
			if depth > maxDepth {
				maxDepth = depth
			}
			if depth >= 1 && (a.createSpend || a.contract) {
				sawCreateSpend = sawCreateSpend || a.createSpend
				sawContract = sawContract || a.contract
			}
			// (1) same diffs, reversed
			sc, sf, fc, v2fc, ci := sim.CanonDiffs(ru, false)
			for _, p := range []struct {
				kind string
				x, y []string
			}{{"siacoin", sim.Reversed(a.sc), sc}, {"siafund", sim.Reversed(a.sf), sf}, {"contract", sim.Reversed(a.fc), fc}, {"v2 contract", sim.Reversed(a.v2fc), v2fc}, {"chain index", []string{a.ci}, []string{ci}}} {
				if err := sim.EqualLists(p.kind, p.x, p.y); err != nil {
					return stats.Failf("C06/revert-diffs", "revert of block %d does not report what applying it reported (apply order reversed vs revert): %v", h, err)
				}
			}
			// (2) store equals the snapshot before the apply, proofs included
			want := ch.Stores[h-1].Snapshot(true)
			got := ch.Store.Snapshot(true)
			if !bytes.Equal(want, got) {
				return stats.Failf("C06/store-inverse", "store after reverting block %d differs from the store before applying it: %s", h, sim.SnapshotDiff(want, got))
			}
			if err := liveAll(ch.Tip(), ch.Store); err != nil {
				return stats.Failf("C06/revert-proofs", "after reverting block %d: %v", h, err)
			}
			if err := fw.Revert(ru, ch.Tip().Elements.NumLeaves); err != nil {
				return stats.Failf("C06/own-copies", "revert of block %d: %v", h, err)
			}
			if n, err := fw.AgreeWith(ch.Store); err != nil {
				return stats.Failf("C06/own-copies", "after reverting block %d: %v", h, err)
			} else {
				rec.Extra("own_copies_compared_after_revert", uint64(n))
			}
			return nil
		},
	}
	ch, err := sim.Replay(c, hooks)
	if err != nil {
		if _, ok := err.(*stats.Failure); ok {
			return err
		}
		return stats.Failf("C06/replay", "%v", err)
	}
	nontrivial := maxDepth >= 2 || sawCreateSpend || sawContract
	labels := []string{fmt.Sprintf("max-reorg-depth:%d", maxDepth)}
	if reapplied > 0 {
		labels = append(labels, "reapplied-same-blocks")
	}
	if competing > 0 {
		labels = append(labels, "competing-branch")
	}
	if sawCreateSpend {
		labels = append(labels, "reverted-create+spend")
	}
	if sawContract {
		labels = append(labels, "reverted-contract-transition")
	}
	for _, st := range c.Steps {
		if st.Expect != nil {
			for _, l := range st.Expect.Labels {
				if l == "v1-revise+prove-same-block" || l == "v1-form+revise-same-block" {
					labels = append(labels, l)
				}
			}
		}
	}
	tip := ch.Tip().Index.ID
	rec.Case(stats.FP(tip[:], len(c.Steps)), nontrivial, labels...)
	rec.Extra("steps", uint64(len(c.Steps)))
	rec.Extra("reverts_checked", uint64(len(revertedAt)))
	if rec.WantSample() {
		ops := ""
		for _, st := range c.Steps {
			ops += st.Op[:1]
		}
		rec.Sample(nontrivial, map[string]any{"ops": ops, "height": ch.Height(), "labels": labels})
	}
	return nil
}

func TestReorgs(t *testing.T) { stats.Prop(t, draw, check) }

func TestReplayReorgs(t *testing.T) { stats.Replay(t, "TestReorgs", check) }

func TestRegress(t *testing.T) { stats.Regress(t, "TestReorgs", check) }
