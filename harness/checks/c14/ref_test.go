package c14

// Reference model for C14: a plain description of a policy tree (Node), deterministic
// key / sighash / preimage pools, an independent address computation and a declarative
// evaluator of "this satisfied policy is accepted" (DESIGN.md Appendix B; verdict only).
//
// Nothing in this file calls SpendPolicy.Verify, SpendPolicy.Address, PolicyOpaque,
// StandardAddress, unlockConditionsRoot or the library's policy encoder.

import (
	"crypto/ed25519"
	"crypto/sha256"
	"encoding/binary"
	"fmt"
	"strconv"
	"strings"
	"time"

	"go.sia.tech/core/types"
	"golang.org/x/crypto/blake2b"
)

// ---- case description ----------------------------------------------------------------------

// Node is one policy (sub-)tree. Opq means: in the policy handed to Verify this
// sub-policy is replaced by opaque(address(sub-policy)); the un-flagged tree is the
// "original" policy whose address must not change.
type Node struct {
	K    string `json:"k"`              // above | after | pk | h | op | th | uc
	U    uint64 `json:"u,omitempty"`    // above: height; uc: timelock
	T    int64  `json:"t,omitempty"`    // after: unix seconds
	I    int    `json:"i,omitempty"`    // pk: key index; h: preimage index; op: raw address index
	N    uint8  `json:"n,omitempty"`    // th
	Of   []Node `json:"of,omitempty"`   // th
	Keys []UKey `json:"keys,omitempty"` // uc
	Req  uint64 `json:"req,omitempty"`  // uc
	Opq  bool   `json:"opq,omitempty"`
}

// UKey is one legacy unlock key. A = "ed" (ed25519 key I of the pool), "ent"
// (entropy specifier) or any other text = unknown algorithm with that specifier
// name; for non-ed keys the key bytes are L bytes derived from I.
type UKey struct {
	A string `json:"a"`
	I int    `json:"i,omitempty"`
	L int    `json:"l,omitempty"`
}

// SigSpec describes one supplied signature: key K of the pool (K<0: all-zero
// signature) signing sighash number W, with bit F-1 flipped when F>0.
type SigSpec struct {
	K int `json:"k"`
	W int `json:"w,omitempty"`
	F int `json:"f,omitempty"`
}

// PreSpec describes one supplied preimage: preimage I of the pool with bit F-1 flipped when F>0.
type PreSpec struct {
	I int `json:"i"`
	F int `json:"f,omitempty"`
}

// ---- deterministic pools -------------------------------------------------------------------

func derive(tag string, i int) [32]byte {
	return sha256.Sum256([]byte("c14/" + tag + "/" + strconv.Itoa(i)))
}

var (
	privCache = map[int]types.PrivateKey{}
	signCache = map[[2]int]types.Signature{}
	verCache  = map[string]bool{}
)

func privKey(i int) types.PrivateKey {
	if k, ok := privCache[i]; ok {
		return k
	}
	seed := derive("key", i)
	k := types.NewPrivateKeyFromSeed(seed[:])
	privCache[i] = k
	return k
}

func pubKey(i int) (pk types.PublicKey) {
	copy(pk[:], privKey(i)[32:])
	return
}

func sigHashN(j int) types.Hash256 { return types.Hash256(derive("sighash", j)) }

// preimageN(0) is the all-zero secret (an uninitialised one): what a verifier holds in its hands when a witness is missing
func preimageN(i int) [32]byte {
	if i == 0 {
		return [32]byte{}
	}
	return derive("pre", i)
}
func rawAddrN(i int) types.Address { return types.Address(derive("opaque", i)) }

func (s SigSpec) sig() (out types.Signature) {
	if s.K >= 0 {
		k := [2]int{s.K, s.W}
		c, ok := signCache[k]
		if !ok {
			h := sigHashN(s.W)
			copy(c[:], ed25519.Sign(ed25519.PrivateKey(privKey(s.K)), h[:]))
			signCache[k] = c
		}
		out = c
	}
	if s.F > 0 {
		b := (s.F - 1) % (64 * 8)
		out[b/8] ^= 1 << (b % 8)
	}
	return
}

func (p PreSpec) pre() (out [32]byte) {
	out = preimageN(p.I)
	if p.F > 0 {
		b := (p.F - 1) % (32 * 8)
		out[b/8] ^= 1 << (b % 8)
	}
	return
}

// refSigOK: does sig verify under pub for msg (plain crypto/ed25519, memoised).
func refSigOK(pub []byte, msg types.Hash256, sig types.Signature) bool {
	if len(pub) != ed25519.PublicKeySize {
		return false
	}
	key := string(pub) + string(msg[:]) + string(sig[:])
	if v, ok := verCache[key]; ok {
		return v
	}
	v := ed25519.Verify(ed25519.PublicKey(pub), msg[:], sig[:])
	if len(verCache) > 1<<17 {
		verCache = map[string]bool{}
	}
	verCache[key] = v
	return v
}

func (k UKey) algorithm() (s types.Specifier) {
	switch k.A {
	case "ed":
		copy(s[:], "ed25519")
	case "ent":
		copy(s[:], "entropy")
	default:
		copy(s[:], k.A)
	}
	return
}

func (k UKey) keyBytes() []byte {
	if k.A == "ed" {
		// L == 0: the well-formed 32-byte key; L < 0: an empty key; 0 < L < 32: the key cut to L bytes. A malformed
		// ed25519 key is legal on the wire and hashes into the address like any other key; for signature checks it
		// means the key zero-padded to 32 bytes (as in siad, and in both the v1 and the policy code of the library).
		pk := pubKey(k.I)
		switch {
		case k.L < 0:
			return []byte{}
		case k.L > 0 && k.L < 32:
			return pk[:k.L]
		}
		return pk[:]
	}
	out := make([]byte, 0, k.L)
	for c := 0; len(out) < k.L; c++ {
		d := derive("ukey/"+strconv.Itoa(k.I), c)
		out = append(out, d[:]...)
	}
	return out[:k.L]
}

// ---- canonical text (fingerprints, labels) -------------------------------------------------

func (n *Node) text(sb *strings.Builder) {
	if n.Opq {
		sb.WriteString("~")
	}
	switch n.K {
	case "above":
		fmt.Fprintf(sb, "above(%d)", n.U)
	case "after":
		fmt.Fprintf(sb, "after(%d)", n.T)
	case "pk":
		fmt.Fprintf(sb, "pk(%d)", n.I)
	case "h":
		fmt.Fprintf(sb, "h(%d)", n.I)
	case "op":
		fmt.Fprintf(sb, "op(%d)", n.I)
	case "th":
		fmt.Fprintf(sb, "th(%d,[", n.N)
		for i := range n.Of {
			if i > 0 {
				sb.WriteByte(',')
			}
			n.Of[i].text(sb)
		}
		sb.WriteString("])")
	case "uc":
		fmt.Fprintf(sb, "uc(%d,[", n.U)
		for i, k := range n.Keys {
			if i > 0 {
				sb.WriteByte(',')
			}
			fmt.Fprintf(sb, "%s:%d:%d", k.A, k.I, k.L)
		}
		fmt.Fprintf(sb, "],%d)", n.Req)
	default:
		sb.WriteString("?" + n.K)
	}
}

func (n *Node) String() string {
	var sb strings.Builder
	n.text(&sb)
	return sb.String()
}

// ---- materialising the library value -------------------------------------------------------

type addrMemo map[*Node]types.Address

// build returns the library policy for n. With flags, sub-policies marked Opq are
// replaced by an opaque policy carrying the *reference* address of the sub-policy.
func build(n *Node, flags bool, memo addrMemo) types.SpendPolicy {
	if flags && n.Opq && n.K != "op" { // an opaque policy is its own opaque form
		return types.SpendPolicy{Type: types.PolicyTypeOpaque(refAddress(n, memo))}
	}
	switch n.K {
	case "above":
		return types.PolicyAbove(n.U)
	case "after":
		return types.PolicyAfter(time.Unix(n.T, 0))
	case "pk":
		return types.PolicyPublicKey(pubKey(n.I))
	case "h":
		p := preimageN(n.I)
		return types.PolicyHash(sha256.Sum256(p[:]))
	case "op":
		return types.SpendPolicy{Type: types.PolicyTypeOpaque(rawAddrN(n.I))}
	case "th":
		var of []types.SpendPolicy
		if n.Of != nil {
			of = make([]types.SpendPolicy, len(n.Of))
		}
		for i := range n.Of {
			of[i] = build(&n.Of[i], flags, memo)
		}
		return types.PolicyThreshold(n.N, of)
	case "uc":
		uc := types.UnlockConditions{Timelock: n.U, SignaturesRequired: n.Req}
		for _, k := range n.Keys {
			uc.PublicKeys = append(uc.PublicKeys, types.UnlockKey{Algorithm: k.algorithm(), Key: k.keyBytes()})
		}
		return types.SpendPolicy{Type: types.PolicyTypeUnlockConditions(uc)}
	}
	panic("harness: bad node kind " + n.K)
}

// ---- reference wire form and address -------------------------------------------------------

const (
	opAbove = 1 + iota
	opAfter
	opPublicKey
	opHash
	opThreshold
	opOpaque
	opUnlockConditions
)

func le64(u uint64) []byte {
	var b [8]byte
	binary.LittleEndian.PutUint64(b[:], u)
	return b[:]
}

func ucKeyBytes(k UKey) []byte {
	a := k.algorithm()
	kb := k.keyBytes()
	out := append([]byte{}, a[:]...)
	out = append(out, le64(uint64(len(kb)))...)
	return append(out, kb...)
}

// refWire appends the policy body (no version byte) of the policy as presented
// (flags honoured when flags is set; children written in full).
func refWire(dst []byte, n *Node, flags bool, memo addrMemo) []byte {
	if flags && n.Opq && n.K != "op" {
		a := refAddress(n, memo)
		return append(append(dst, opOpaque), a[:]...)
	}
	switch n.K {
	case "above":
		return append(append(dst, opAbove), le64(n.U)...)
	case "after":
		return append(append(dst, opAfter), le64(uint64(n.T))...)
	case "pk":
		pk := pubKey(n.I)
		return append(append(dst, opPublicKey), pk[:]...)
	case "h":
		p := preimageN(n.I)
		h := sha256.Sum256(p[:])
		return append(append(dst, opHash), h[:]...)
	case "op":
		a := rawAddrN(n.I)
		return append(append(dst, opOpaque), a[:]...)
	case "th":
		dst = append(dst, opThreshold, n.N, uint8(len(n.Of)))
		for i := range n.Of {
			dst = refWire(dst, &n.Of[i], flags, memo)
		}
		return dst
	case "uc":
		dst = append(dst, opUnlockConditions)
		dst = append(dst, le64(n.U)...)
		dst = append(dst, le64(uint64(len(n.Keys)))...)
		for _, k := range n.Keys {
			dst = append(dst, ucKeyBytes(k)...)
		}
		return append(dst, le64(n.Req)...)
	}
	panic("harness: bad node kind " + n.K)
}

// merkleRoot is the RFC 6962 tree hash over already-hashed leaves (BLAKE2b-256,
// node prefix 0x01), written recursively: split at the largest power of two < n.
func merkleRoot(leaves [][32]byte) [32]byte {
	switch len(leaves) {
	case 0:
		return [32]byte{}
	case 1:
		return leaves[0]
	}
	k := 1
	for k*2 < len(leaves) {
		k *= 2
	}
	l, r := merkleRoot(leaves[:k]), merkleRoot(leaves[k:])
	buf := make([]byte, 0, 65)
	buf = append(buf, 0x01)
	buf = append(buf, l[:]...)
	buf = append(buf, r[:]...)
	return blake2b.Sum256(buf)
}

func leafHash(data []byte) [32]byte {
	return blake2b.Sum256(append([]byte{0x00}, data...))
}

// refAddress is the address of the *original* (un-flagged) policy n.
func refAddress(n *Node, memo addrMemo) types.Address {
	if memo != nil {
		if a, ok := memo[n]; ok {
			return a
		}
	}
	var a types.Address
	switch n.K {
	case "uc":
		leaves := [][32]byte{leafHash(le64(n.U))}
		for _, k := range n.Keys {
			leaves = append(leaves, leafHash(ucKeyBytes(k)))
		}
		leaves = append(leaves, leafHash(le64(n.Req)))
		a = merkleRoot(leaves)
	case "th":
		buf := append([]byte("sia/address|"), 1, opThreshold, n.N, uint8(len(n.Of)))
		for i := range n.Of {
			c := &n.Of[i]
			var ca types.Address
			if c.K == "op" {
				ca = rawAddrN(c.I) // an opaque child stands for itself
			} else {
				ca = refAddress(c, memo)
			}
			buf = append(append(buf, opOpaque), ca[:]...)
		}
		a = blake2b.Sum256(buf)
	default:
		buf := append([]byte("sia/address|"), 1)
		a = blake2b.Sum256(refWire(buf, n, false, nil))
	}
	if memo != nil {
		memo[n] = a
	}
	return a
}

// ---- reference evaluator -------------------------------------------------------------------

// span locates a revealed non-root sub-policy and the witnesses its leaves use.
type span struct {
	path       []int
	s0, s1     int // signatures [s0,s1)
	p0, p1     int // preimages [p0,p1)
	underMixed bool
}

// shape is what the declarative evaluator needs to know about a presented policy.
type shape struct {
	structOK bool  // every visited threshold: <=255 children, no uc child, revealed == n
	total    int   // sum of len(of) over visited thresholds
	pks      []int // key indices of revealed pk leaves, depth-first left to right
	hs       []int // preimage indices of revealed hash leaves, same order
	aboves   []uint64
	afters   []int64
	spans    []span
	mixed    bool // some visited threshold has >=1 opaque and >=1 revealed child
	maxDepth int
	nodes    int
}

func hidden(n *Node) bool { return n.Opq || n.K == "op" }

func (sh *shape) walk(n *Node, path []int, depth int) {
	if depth > sh.maxDepth {
		sh.maxDepth = depth
	}
	sh.nodes++
	switch n.K {
	case "above":
		sh.aboves = append(sh.aboves, n.U)
	case "after":
		sh.afters = append(sh.afters, n.T)
	case "pk":
		sh.pks = append(sh.pks, n.I)
	case "h":
		sh.hs = append(sh.hs, n.I)
	case "uc":
		sh.structOK = false // unlock conditions below the root
	case "th":
		sh.total += len(n.Of)
		if len(n.Of) > 255 {
			sh.structOK = false
		}
		revealed, opaque := 0, 0
		for i := range n.Of {
			if hidden(&n.Of[i]) {
				opaque++
				sh.nodes++
				continue
			}
			revealed++
		}
		if revealed != int(n.N) {
			sh.structOK = false
		}
		if revealed > 0 && opaque > 0 {
			sh.mixed = true
		}
		for i := range n.Of {
			c := &n.Of[i]
			if hidden(c) {
				continue
			}
			sp := span{path: append(append([]int{}, path...), i), s0: len(sh.pks), p0: len(sh.hs)}
			sh.walk(c, sp.path, depth+1)
			sp.s1, sp.p1 = len(sh.pks), len(sh.hs)
			sh.spans = append(sh.spans, sp)
		}
	}
}

func shapeOf(root *Node) *shape {
	sh := &shape{structOK: true}
	if root.K != "uc" && !hidden(root) {
		sh.walk(root, nil, 0)
	}
	return sh
}

// ucHolds: legacy unlock conditions (top level). Keys are taken in order; every key
// position yields at most one signature; signatures are taken in order.
func ucHolds(keys []UKey, required uint64, sigs []types.Signature, msg types.Hash256) bool {
	if required == 0 {
		return len(sigs) == 0 // nothing more is needed, nothing may be left
	}
	if required > uint64(len(keys)) || required > uint64(len(sigs)) {
		return false
	}
	switch k := keys[0]; k.A {
	case "ent":
		return false
	case "ed":
		// a short key stands for itself zero-padded to 32 bytes. (The all-zero key is a small-order point that
		// standard Ed25519 verification does not refuse, so an EMPTY key is satisfied by the all-zero signature for
		// some messages: that is the defined, consensus-compatible meaning of such a key, not a verdict to dispute.)
		var padded [32]byte
		copy(padded[:], k.keyBytes())
		if refSigOK(padded[:], msg, sigs[0]) {
			return ucHolds(keys[1:], required-1, sigs[1:], msg)
		}
		return ucHolds(keys[1:], required, sigs, msg)
	default:
		return ucHolds(keys[1:], required-1, sigs[1:], msg)
	}
}

// refAccepts is the meaning of "the satisfied policy is accepted".
func refAccepts(root *Node, sh *shape, height uint64, median, medianNanos int64, msg types.Hash256, sigs []types.Signature, pres [][32]byte) bool {
	if hidden(root) {
		return false
	}
	if root.K == "uc" {
		return height >= root.U && len(pres) == 0 && ucHolds(root.Keys, root.Req, sigs, msg)
	}
	if !sh.structOK || sh.total > 1024 {
		return false
	}
	for _, h := range sh.aboves {
		if !(height >= h) {
			return false
		}
	}
	for _, t := range sh.afters {
		// after(t): the median time is strictly later than t; the median carries a sub-second part when it is the
		// midpoint of an even window, the lock is a whole second
		if !(median > t || (median == t && medianNanos > 0)) {
			return false
		}
	}
	if len(sigs) != len(sh.pks) || len(pres) != len(sh.hs) {
		return false
	}
	for i, k := range sh.pks {
		pk := pubKey(k)
		if !refSigOK(pk[:], msg, sigs[i]) {
			return false
		}
	}
	for i, x := range sh.hs {
		want := preimageN(x)
		if sha256.Sum256(pres[i][:]) != sha256.Sum256(want[:]) {
			return false
		}
	}
	return true
}

// nodeAt returns the node reached from root by path.
func nodeAt(root *Node, path []int) *Node {
	n := root
	for _, i := range path {
		n = &n.Of[i]
	}
	return n
}

// cloneNode deep-copies a tree.
func cloneNode(n *Node) Node {
	c := *n
	if n.Of != nil {
		c.Of = make([]Node, len(n.Of))
		for i := range n.Of {
			c.Of[i] = cloneNode(&n.Of[i])
		}
	}
	c.Keys = append([]UKey(nil), n.Keys...)
	return c
}
