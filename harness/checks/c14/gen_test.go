package c14

// rapid generators: random policy trees with witnesses (TestRandom) and shapes near
// the 255-children / 1024-total / depth limits (TestLimits).

import (
	"math"
	"testing"

	"pgregory.net/rapid"
	"verif/harness/stats"
)

const poolKeys = 6

// Known finding: PolicyAfter(time.Unix(t, 0)) with t above maxSafeLock wraps inside time.Unix
// (seconds + 62135596800 overflows int64) and is then satisfied at every realistic median time.
const (
	keyAfterOverflow = "C14/after-time-overflow"
	maxSafeLock      = math.MaxInt64 - 62135596800
)

type treeGen struct {
	t          *rapid.T
	H          uint64
	T          int64
	sat        bool // bias towards structurally satisfiable, locks holding
	budget     int
	maxDepth   int
	maxBreadth int
}

func (g *treeGen) above(reveal bool) Node {
	var u uint64
	c := rapid.IntRange(0, 9).Draw(g.t, "aboveKind")
	if g.sat && reveal && c < 8 {
		c = c % 3 // holds
	}
	switch c {
	case 0:
		u = g.H
	case 1:
		u = 0
	case 2:
		if g.H > 0 {
			u = g.H - 1
		}
	case 3, 4, 5:
		if g.H < math.MaxUint64 {
			u = g.H + 1
		} else {
			u = g.H
		}
	case 6:
		u = math.MaxUint64
	default:
		u = rapid.Uint64().Draw(g.t, "aboveAny")
	}
	return Node{K: "above", U: u}
}

func (g *treeGen) after(reveal bool) Node {
	if rapid.IntRange(0, 29).Draw(g.t, "afterExtreme") == 0 {
		// locks at the top of the int64 range: time.Unix wraps above maxSafeLock (known finding)
		v := rapid.SampledFrom([]int64{maxSafeLock, maxSafeLock - 1, maxSafeLock + 1, math.MaxInt64, math.MaxInt64 - 1, 1 << 62, math.MinInt64, math.MinInt64 + 1}).Draw(g.t, "afterExtremeValue")
		if v > maxSafeLock && stats.KnownOpen(keyAfterOverflow) {
			stats.G().Excluded(keyAfterOverflow)
			v = maxSafeLock
		}
		return Node{K: "after", T: v}
	}
	c := rapid.IntRange(0, 9).Draw(g.t, "afterKind")
	if g.sat && reveal && c < 8 {
		c = c % 2 // holds
	}
	var v int64
	switch c {
	case 0:
		v = g.T - 1
	case 1:
		v = g.T - rapid.Int64Range(1, 1<<20).Draw(g.t, "afterBack")
	case 2, 3, 4:
		v = g.T
	case 5, 6:
		v = g.T + 1
	default:
		v = rapid.Int64Range(-(1<<40), 1<<40).Draw(g.t, "afterAny")
	}
	return Node{K: "after", T: v}
}

func (g *treeGen) leaf(reveal bool) Node {
	g.budget--
	switch rapid.IntRange(0, 19).Draw(g.t, "leafKind") {
	case 0, 1, 2:
		return g.above(reveal)
	case 3, 4, 5:
		return g.after(reveal)
	case 6, 7, 8, 9, 10, 11:
		return Node{K: "pk", I: rapid.IntRange(0, poolKeys-1).Draw(g.t, "key")}
	case 12, 13, 14, 15, 16:
		return Node{K: "h", I: rapid.IntRange(0, 5).Draw(g.t, "pre")}
	case 17, 18:
		return Node{K: "op", I: rapid.IntRange(0, 3).Draw(g.t, "raw")}
	default:
		if g.sat && reveal {
			return Node{K: "pk", I: 0}
		}
		return drawUC(g.t, g.H, false) // unlock conditions below the root: never valid, still has an address
	}
}

func (g *treeGen) node(depth int, reveal bool) Node {
	leafOdds := 5 // out of 10
	switch depth {
	case 0:
		leafOdds = 1
	case 1:
		leafOdds = 3
	}
	if depth >= g.maxDepth || g.budget <= 0 || rapid.IntRange(0, 9).Draw(g.t, "isLeaf") < leafOdds {
		return g.leaf(reveal)
	}
	g.budget--
	var b int
	if rapid.IntRange(0, 9).Draw(g.t, "wide") == 0 {
		b = rapid.IntRange(0, g.maxBreadth).Draw(g.t, "breadthWide")
	} else {
		b = rapid.IntRange(0, 5).Draw(g.t, "breadth")
	}
	if b > g.budget {
		b = max(g.budget, 0)
	}
	n := Node{K: "th"}
	if b > 0 {
		n.Of = make([]Node, 0, b)
	}
	revealed := 0
	for i := 0; i < b; i++ {
		var show bool
		if g.sat && reveal {
			show = rapid.IntRange(0, b).Draw(g.t, "show") < 2
		} else {
			show = rapid.Bool().Draw(g.t, "showFree")
		}
		var c Node
		if show {
			c = g.node(depth+1, reveal)
		} else if rapid.IntRange(0, 2).Draw(g.t, "rawOpaque") == 0 {
			g.budget--
			c = Node{K: "op", I: rapid.IntRange(0, 3).Draw(g.t, "raw")}
		} else {
			c = g.node(depth+1, false)
			c.Opq = true
		}
		if !hidden(&c) {
			revealed++
		}
		n.Of = append(n.Of, c)
	}
	if g.sat && reveal && rapid.IntRange(0, 11).Draw(g.t, "offByOne") > 0 {
		n.N = uint8(min(revealed, 255))
	} else {
		switch rapid.IntRange(0, 3).Draw(g.t, "nKind") {
		case 0:
			n.N = uint8(min(revealed+1, 255))
		case 1:
			n.N = uint8(max(revealed-1, 0))
		case 2:
			n.N = uint8(rapid.IntRange(0, min(b+1, 255)).Draw(g.t, "nAny"))
		default:
			n.N = rapid.Uint8().Draw(g.t, "nByte")
		}
	}
	return n
}

var unknownAlgs = []string{"unknown", "", "ed25518", "ED25519", "entropy2", "ed25519-sha512"}

func drawUC(t *rapid.T, H uint64, sat bool) Node {
	n := Node{K: "uc"}
	switch c := rapid.IntRange(0, 5).Draw(t, "timelockKind"); {
	case c <= 1:
		n.U = 0
	case c == 2:
		n.U = H
	case c == 3 && H > 0:
		n.U = H - 1
	case c == 4 && !sat && H < math.MaxUint64:
		n.U = H + 1
	case c == 5 && !sat:
		n.U = rapid.Uint64().Draw(t, "timelockAny")
	}
	k := rapid.IntRange(0, 8).Draw(t, "nkeys")
	for i := 0; i < k; i++ {
		switch c := rapid.IntRange(0, 9).Draw(t, "keyKind"); {
		case c < 6:
			n.Keys = append(n.Keys, UKey{A: "ed", I: rapid.IntRange(0, 3).Draw(t, "key"),
				L: rapid.SampledFrom([]int{0, 0, 0, 0, 0, 0, 0, 0, -1, 1, 31}).Draw(t, "edKeyLen")}) // mostly well-formed, sometimes empty / cut
		case c < 9:
			n.Keys = append(n.Keys, UKey{A: rapid.SampledFrom(unknownAlgs).Draw(t, "alg"), I: rapid.IntRange(0, 3).Draw(t, "ukey"),
				L: rapid.SampledFrom([]int{0, 1, 31, 32, 33, 64, 100}).Draw(t, "ukeyLen")})
		default:
			n.Keys = append(n.Keys, UKey{A: "ent", I: rapid.IntRange(0, 3).Draw(t, "ekey"), L: rapid.SampledFrom([]int{0, 32, 40}).Draw(t, "ekeyLen")})
		}
	}
	if rapid.IntRange(0, 9).Draw(t, "reqBig") == 0 {
		n.Req = rapid.Uint64().Draw(t, "reqAny")
	} else {
		n.Req = uint64(rapid.IntRange(0, k+1).Draw(t, "req"))
	}
	return n
}

// ucWitness: signatures for key positions chosen in order (so that the conditions are met
// unless an entropy key is in the way), before mutation.
func ucWitness(t *rapid.T, n *Node) []SigSpec {
	var out []SigSpec
	for i, k := range n.Keys {
		if uint64(len(out)) >= n.Req {
			break
		}
		left := uint64(len(n.Keys) - i)
		need := n.Req - uint64(len(out))
		take := need >= left || rapid.IntRange(0, 2).Draw(t, "useKey") > 0
		if !take || k.A == "ent" {
			continue
		}
		if k.A == "ed" {
			out = append(out, SigSpec{K: k.I})
		} else {
			out = append(out, SigSpec{K: rapid.IntRange(-1, poolKeys-1).Draw(t, "anySig"), F: rapid.IntRange(0, 512).Draw(t, "anyFlip")})
		}
	}
	return out
}

// mutateWitness applies 0..2 witness mutations.
func mutateWitness(t *rapid.T, c *Case) {
	rounds := rapid.SampledFrom([]int{0, 0, 0, 1, 1, 1, 1, 2}).Draw(t, "mutations")
	if rounds == 0 {
		c.Tag = "exact"
	}
	for r := 0; r < rounds; r++ {
		kind := rapid.SampledFrom([]string{"missing-sig", "surplus-sig", "swap-sig", "corrupt-sig", "foreign-sig", "wrong-sighash", "one-wrong-sighash",
			"zero-sig", "dup-sig", "missing-pre", "surplus-pre", "swap-pre", "corrupt-pre", "wrong-pre"}).Draw(t, "mutation")
		ns, np := len(c.Sigs), len(c.Pres)
		applied := true
		switch kind {
		case "missing-sig":
			if ns == 0 {
				applied = false
				break
			}
			i := rapid.IntRange(0, ns-1).Draw(t, "at")
			c.Sigs = append(append([]SigSpec{}, c.Sigs[:i]...), c.Sigs[i+1:]...)
		case "surplus-sig":
			i := rapid.IntRange(0, ns).Draw(t, "at")
			extra := SigSpec{K: rapid.IntRange(0, poolKeys-1).Draw(t, "extraKey"), W: c.SH}
			c.Sigs = append(append(append([]SigSpec{}, c.Sigs[:i]...), extra), c.Sigs[i:]...)
		case "dup-sig":
			if ns == 0 {
				applied = false
				break
			}
			i := rapid.IntRange(0, ns-1).Draw(t, "at")
			c.Sigs = append(append(append([]SigSpec{}, c.Sigs[:i+1]...), c.Sigs[i]), c.Sigs[i+1:]...)
		case "swap-sig":
			if ns < 2 {
				applied = false
				break
			}
			i, j := rapid.IntRange(0, ns-1).Draw(t, "i"), rapid.IntRange(0, ns-1).Draw(t, "j")
			c.Sigs = append([]SigSpec{}, c.Sigs...)
			c.Sigs[i], c.Sigs[j] = c.Sigs[j], c.Sigs[i]
		case "corrupt-sig", "foreign-sig", "one-wrong-sighash", "zero-sig":
			if ns == 0 {
				applied = false
				break
			}
			i := rapid.IntRange(0, ns-1).Draw(t, "at")
			c.Sigs = append([]SigSpec{}, c.Sigs...)
			switch kind {
			case "corrupt-sig":
				c.Sigs[i].F = rapid.IntRange(1, 512).Draw(t, "bit")
			case "foreign-sig":
				c.Sigs[i].K = (c.Sigs[i].K + 1 + rapid.IntRange(0, poolKeys-2).Draw(t, "other")) % poolKeys
			case "one-wrong-sighash":
				c.Sigs[i].W = c.SH + 1
			case "zero-sig":
				c.Sigs[i] = SigSpec{K: -1}
			}
		case "wrong-sighash":
			if ns == 0 {
				applied = false
				break
			}
			c.Sigs = append([]SigSpec{}, c.Sigs...)
			for i := range c.Sigs {
				c.Sigs[i].W = c.SH + 1
			}
		case "missing-pre":
			if np == 0 {
				applied = false
				break
			}
			i := rapid.IntRange(0, np-1).Draw(t, "at")
			c.Pres = append(append([]PreSpec{}, c.Pres[:i]...), c.Pres[i+1:]...)
		case "surplus-pre":
			i := rapid.IntRange(0, np).Draw(t, "at")
			extra := PreSpec{I: rapid.IntRange(0, 7).Draw(t, "extraPre")}
			c.Pres = append(append(append([]PreSpec{}, c.Pres[:i]...), extra), c.Pres[i:]...)
		case "swap-pre":
			if np < 2 {
				applied = false
				break
			}
			i, j := rapid.IntRange(0, np-1).Draw(t, "i"), rapid.IntRange(0, np-1).Draw(t, "j")
			c.Pres = append([]PreSpec{}, c.Pres...)
			c.Pres[i], c.Pres[j] = c.Pres[j], c.Pres[i]
		case "corrupt-pre", "wrong-pre":
			if np == 0 {
				applied = false
				break
			}
			i := rapid.IntRange(0, np-1).Draw(t, "at")
			c.Pres = append([]PreSpec{}, c.Pres...)
			if kind == "corrupt-pre" {
				c.Pres[i].F = rapid.IntRange(1, 256).Draw(t, "bit")
			} else {
				c.Pres[i].I = (c.Pres[i].I + 1 + rapid.IntRange(0, 4).Draw(t, "other")) % 6
			}
		}
		if !applied {
			kind = "exact"
		}
		if r == 0 {
			c.Tag = kind
		} else if kind != "exact" {
			if c.Tag == "exact" {
				c.Tag = kind
			} else {
				c.Tag = "two-mutations"
			}
		}
	}
}

func drawHeightTime(t *rapid.T) (uint64, int64) {
	var h uint64
	switch rapid.IntRange(0, 9).Draw(t, "heightKind") {
	case 0:
		h = 0
	case 1:
		h = math.MaxUint64
	case 2:
		h = rapid.Uint64().Draw(t, "heightAny")
	default:
		h = rapid.Uint64Range(0, 1000).Draw(t, "height")
	}
	var m int64
	switch rapid.IntRange(0, 9).Draw(t, "timeKind") {
	case 0:
		m = 0
	case 1:
		m = rapid.Int64Range(-1000, 1000).Draw(t, "timeSmall")
	default:
		m = rapid.Int64Range(1, 1<<34).Draw(t, "time")
	}
	return h, m
}

func exactWitness(p *Node, sh int) ([]SigSpec, []PreSpec) {
	s := shapeOf(p)
	var sigs []SigSpec
	var pres []PreSpec
	for _, k := range s.pks {
		sigs = append(sigs, SigSpec{K: k, W: sh})
	}
	for _, x := range s.hs {
		pres = append(pres, PreSpec{I: x})
	}
	return sigs, pres
}

// drawPaths draws up to k paths into the tree (for the extra opacification subset).
func drawPaths(t *rapid.T, root *Node, k int) [][]int {
	var out [][]int
	for a := 0; a < k; a++ {
		var path []int
		n := root
		for n.K == "th" && len(n.Of) > 0 {
			if len(path) > 0 && rapid.IntRange(0, 2).Draw(t, "stop") == 0 {
				break
			}
			i := rapid.IntRange(0, len(n.Of)-1).Draw(t, "child")
			path = append(path, i)
			n = &n.Of[i]
		}
		if len(path) > 0 {
			out = append(out, path)
		}
	}
	return out
}

func drawRandom(t *rapid.T) Case {
	var c Case
	c.H, c.T = drawHeightTime(t)
	c.SH = rapid.IntRange(0, 3).Draw(t, "sighash")
	mode := rapid.SampledFrom([]string{"sat", "sat", "sat", "sat", "free", "uc", "uc"}).Draw(t, "mode")
	if mode == "uc" {
		sat := rapid.IntRange(0, 3).Draw(t, "ucSat") > 0
		c.P = drawUC(t, c.H, sat)
		c.Sigs = ucWitness(t, &c.P)
		for i := range c.Sigs {
			c.Sigs[i].W = c.SH
		}
		mutateWitness(t, &c)
		c.Gen = "uc"
		return c
	}
	g := &treeGen{t: t, H: c.H, T: c.T, sat: mode == "sat"}
	g.maxDepth = stats.EnvInt("C14_MAX_DEPTH", 6)
	g.maxBreadth = stats.EnvInt("C14_MAX_BREADTH", 40)
	g.budget = rapid.SampledFrom([]int{8, 20, 20, 60, 60, 200, 600}).Draw(t, "budget")
	c.P = g.node(0, true)
	c.P.Opq = false
	c.Sigs, c.Pres = exactWitness(&c.P, c.SH)
	mutateWitness(t, &c)
	c.Alt = drawPaths(t, &c.P, rapid.IntRange(0, 5).Draw(t, "altPaths"))
	c.Gen = mode
	// the median of an even window is a midpoint and may carry half a second; locks are whole seconds
	switch rapid.IntRange(0, 5).Draw(t, "medianNanos") {
	case 0:
		c.TN = 500_000_000
	case 1:
		c.TN = rapid.SampledFrom([]int64{1, 999_999_999}).Draw(t, "medianNanosEdge")
	case 2:
		c.TN = rapid.Int64Range(1, 999_999_999).Draw(t, "medianNanosAny")
	}
	return c
}

func TestRandom(t *testing.T) { stats.Prop(t, drawRandom, checkCase) }

// ---- limits ----------------------------------------------------------------------------------------

// filler returns a hidden child: a raw opaque policy or a small flagged sub-policy.
func filler(t *rapid.T) Node {
	switch rapid.IntRange(0, 7).Draw(t, "filler") {
	case 0:
		return Node{K: "pk", I: rapid.IntRange(0, poolKeys-1).Draw(t, "key"), Opq: true}
	case 1:
		return Node{K: "above", U: rapid.Uint64Range(0, 5).Draw(t, "h"), Opq: true}
	case 2:
		return Node{K: "th", N: 1, Of: []Node{{K: "h", I: 1}, {K: "op", I: 2}}, Opq: true}
	default:
		return Node{K: "op", I: rapid.IntRange(0, 3).Draw(t, "raw")}
	}
}

func revealedLeaf(t *rapid.T, H uint64, T int64) Node {
	switch rapid.IntRange(0, 4).Draw(t, "revealedLeaf") {
	case 0:
		return Node{K: "above", U: H}
	case 1:
		return Node{K: "after", T: T - 1}
	case 2:
		return Node{K: "h", I: rapid.IntRange(0, 5).Draw(t, "pre")}
	default:
		return Node{K: "pk", I: rapid.IntRange(0, poolKeys-1).Draw(t, "key")}
	}
}

// threshold of exactly `size` children: `kids` revealed at drawn positions, r revealed
// leaves, the rest hidden; N = number revealed.
func sizedThreshold(t *rapid.T, size int, kids []Node, H uint64, T int64) Node {
	n := Node{K: "th", Of: make([]Node, 0, size)}
	room := size - len(kids)
	r := 0
	if room > 0 {
		r = rapid.IntRange(0, min(room, 2)).Draw(t, "revealedLeaves")
	}
	var shown []Node
	shown = append(shown, kids...)
	for i := 0; i < r; i++ {
		shown = append(shown, revealedLeaf(t, H, T))
	}
	// positions of the revealed children: increasing, evenly spaced from a drawn start
	if len(shown) > size {
		shown = shown[:size]
	}
	pos := make([]bool, size)
	if cnt := len(shown); cnt > 0 {
		step := rapid.IntRange(1, size/cnt).Draw(t, "step")
		start := rapid.IntRange(0, size-(cnt-1)*step-1).Draw(t, "start")
		for k := 0; k < cnt; k++ {
			pos[start+k*step] = true
		}
	}
	k := 0
	for p := 0; p < size; p++ {
		if pos[p] && k < len(shown) {
			n.Of = append(n.Of, shown[k])
			k++
		} else {
			n.Of = append(n.Of, filler(t))
		}
	}
	n.N = uint8(min(k, 255))
	return n
}

func drawLimits(t *rapid.T) Case {
	var c Case
	c.H = rapid.Uint64Range(1, 1000).Draw(t, "height")
	c.T = rapid.Int64Range(1, 1<<34).Draw(t, "time")
	kind := rapid.SampledFrom([]string{"wide", "wide", "total", "total", "total", "deep", "deep"}).Draw(t, "kind")
	switch kind {
	case "wide":
		size := rapid.IntRange(250, 260).Draw(t, "size")
		w := sizedThreshold(t, size, nil, c.H, c.T)
		if rapid.Bool().Draw(t, "nested") {
			w = sizedThreshold(t, rapid.IntRange(1, 4).Draw(t, "outer"), []Node{w}, c.H, c.T)
		}
		c.P = w
	case "total":
		target := rapid.IntRange(1016, 1032).Draw(t, "target")
		m := rapid.IntRange(5, 10).Draw(t, "thresholds")
		sizes := make([]int, m)
		left := target
		for i := 0; i < m; i++ {
			rest := m - i - 1
			lo, hi := max(1, left-255*rest), min(255, left-rest)
			if rapid.IntRange(0, 2).Draw(t, "fill") == 0 {
				sizes[i] = hi
			} else {
				sizes[i] = rapid.IntRange(lo, hi).Draw(t, "size")
			}
			left -= sizes[i]
		}
		// arrange bottom-up: threshold i gets, as revealed children, the thresholds that chose it as parent
		parent := make([]int, m)
		load := make([]int, m)
		for i := 1; i < m; i++ {
			p := rapid.IntRange(0, i-1).Draw(t, "parent")
			for k := 0; k < i; k++ { // first earlier threshold with room, starting at the drawn one
				if q := (p + k) % i; load[q] < sizes[q] {
					p = q
					break
				}
			}
			parent[i] = p
			load[p]++
		}
		built := make([]Node, m)
		for i := m - 1; i >= 0; i-- {
			var kids []Node
			for j := i + 1; j < m; j++ {
				if parent[j] == i {
					kids = append(kids, built[j])
				}
			}
			if len(kids) > sizes[i] {
				kids = kids[:sizes[i]]
			}
			built[i] = sizedThreshold(t, sizes[i], kids, c.H, c.T)
		}
		c.P = built[0]
		// a large hidden threshold next to the root's children must not count
		if rapid.Bool().Draw(t, "hiddenBig") && len(c.P.Of) > 0 {
			for i := range c.P.Of {
				if c.P.Of[i].K == "op" {
					big := Node{K: "th", N: 0, Opq: true}
					for j := 0; j < 200; j++ {
						big.Of = append(big.Of, Node{K: "op", I: j % 4})
					}
					c.P.Of[i] = big
					break
				}
			}
		}
	case "deep":
		var d int
		switch rapid.IntRange(0, 3).Draw(t, "depthKind") {
		case 0, 1:
			d = rapid.IntRange(28, 36).Draw(t, "depthNear32")
		case 2:
			d = rapid.IntRange(1, 200).Draw(t, "depth")
		default:
			d = rapid.IntRange(1018, 1030).Draw(t, "depthNear1024")
		}
		cur := revealedLeaf(t, c.H, c.T)
		for i := 0; i < d; i++ {
			size := 1
			if d < 300 && rapid.IntRange(0, 5).Draw(t, "siblings") == 0 {
				size = rapid.IntRange(2, 4).Draw(t, "size")
			}
			cur = sizedThreshold(t, size, []Node{cur}, c.H, c.T)
		}
		c.P = cur
	}
	c.Sigs, c.Pres = exactWitness(&c.P, 0)
	if rapid.IntRange(0, 4).Draw(t, "mutate") == 0 {
		mutateWitness(t, &c)
	} else {
		c.Tag = "exact"
	}
	c.Gen = "limits-" + kind
	return c
}

func TestLimits(t *testing.T) { stats.Prop(t, drawLimits, checkCase) }
