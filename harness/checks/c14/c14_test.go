// C14 — Spend policy verification matches the policy's meaning and address commitment.
//
// Oracles (all in ref_test.go, none calls the code under test):
//   - verdict: SpendPolicy.Verify(...) == nil  <=>  declarative reference evaluator accepts
//   - address: SpendPolicy.Address() of the policy, and of the policy with ANY subset of
//     sub-policies replaced by opaque(reference address of the sub-policy), equals the reference
//     address (golang.org/x/crypto/blake2b + recursive RFC 6962 tree for unlock conditions)
//   - metamorphic: an accepted policy with one more revealed sub-policy made opaque is never
//     accepted (with the same witnesses, and with that branch's witnesses removed)
//   - wire: library encoding == reference encoding; decoding succeeds iff nesting <= 32
//
// Known finding kept open: C14/after-time-overflow (TestKnown) — after(t) with
// t > MaxInt64-62135596800 s wraps inside time.Unix and is satisfied at any median time;
// generators leave that class out only while the key is listed as open.
//
// Sensitivity (./run C14 quick against seeded mutants via tools/with_mutant.sh; the
// driver does not stop early, so "s" is the wall time of the whole quick run on a machine
// shared with other builders, load 60-180):
//
//	id   mutant                                                                 result    s    failing key
//	M01  policy.go threshold: line 173 `satisfied == p.N` -> false and 181 == -> >=  killed   49  C14/verdict
//	M02  threshold final check `== p.N` -> `<= p.N`                             killed   50  C14/verdict, C14/opacified-accepted
//	M03  above: `height >= p` -> `height > p`                                   killed   40  C14/verdict
//	M04  after: `After(t)` -> `!Before(t)`                                      killed   31  C14/verdict
//	M05  superfluous-signature check dropped                                    killed   40  C14/verdict
//	M06  superfluous-preimage check dropped                                     killed   41  C14/verdict
//	M07  hash leaf consumes no preimage                                         killed   55  C14/verdict
//	M08  pk leaf consumes no signature                                          killed   71  C14/verdict
//	M09  Address: children not replaced by their opaque form                    killed   31  C14/address
//	M10  maxPolicies 1024 -> 1025                                               killed  128  C14/verdict (TestLimits)
//	M11  maxPolicies 1024 -> 1023                                               killed  117  C14/verdict (TestLimits)
//	M12  threshold width limit 255 -> 256                                       killed  147  C14/verdict (TestLimits)
//	M13  uc: entropy key treated as unknown algorithm                           killed  134  C14/verdict
//	M14  uc: ed25519 key accepts any signature                                  killed  157  C14/verdict
//	M15  uc: timelock ignored                                                   killed  121  C14/verdict
//	M16  threshold: uc sub-policy allowed                                       killed   86  C14/verdict
//	M17  threshold: failing revealed child skipped instead of fatal             killed  119  C14/verdict
//	M18  hash leaf accepts any preimage                                         killed   74  C14/verdict
//	M19  PolicyOpaque re-wraps an already opaque policy                         killed   66  C14/address
//	M20  pk leaf: missing signature accepted                                    killed   81  C14/verdict
//	M21  complexity not accumulated across thresholds (`+=` -> `=`)             killed  175  C14/verdict (TestLimits)
//	M22  uc: `required > len(sigs)` -> `>=`                                     killed  140  C14/verdict
//	M23  uc: matched ed25519 signature not consumed                             killed  125  C14/verdict
//	M24  hash.go unlockConditionsRoot: timelock leaf hashes SignaturesRequired  killed   28  C14/address
//	M25  hash.go StandardAddress: wrong opcode byte                             killed  127  C14/address
//	M26  hash.go StandardUnlockHash: wrong precomputed leaf constant            killed  127  C14/address
//	M27  encoding.go maxPolicyDepth 32 -> 31                                    killed   98  C14/decode-depth
//	M28  encoding.go depth check allows 33                                      killed   96  C14/decode-depth
//	M29  encoding.go threshold N encoded as N&0x7f (address collision n>=128)   killed   78  C14/address
//	M30  opaque child counted as satisfied                                      killed   54  C14/opacified-accepted
//	M31  blake2b Accumulator.Root: operands swapped when folding                killed   27  C14/address
//	M32  opaque policy holds on its own (`return errOpaque` -> nil)             killed   86  C14/verdict
//	M33  uc: unknown-algorithm key does not consume a signature                 killed   97  C14/verdict
//	M34  uc: loop keeps walking keys after required reached 0                   killed   50  panic (index out of range) reported as failure
//	M35  threshold final check `== p.N` -> `>= p.N` alone                       survived (equivalent: line 173 rejects the N+1st revealed child first)
//	M36  uc: `required > keys remaining` early exit disabled                    survived (equivalent: each key position yields at most one signature, so required cannot reach 0)
//	FIX  after: `medianTimestamp.Unix() > time.Time(p).Unix()` (proposed fix), exclusion off: TestKnown clean, TestRandom 150k + TestConsensus 50k pass
package c14

import (
	"bytes"
	"fmt"
	"math"
	"strings"
	"testing"
	"time"

	"go.sia.tech/core/types"
	"verif/harness/stats"
)

func TestMain(m *testing.M) { stats.Main(m) }

// Case is one (policy, witnesses, height, median time, sighash) decision.
type Case struct {
	P      Node      `json:"p"`
	Sigs   []SigSpec `json:"sigs,omitempty"`
	Pres   []PreSpec `json:"pres,omitempty"`
	H      uint64    `json:"h"`
	T      int64     `json:"t"`
	TN     int64     `json:"tn,omitempty"` // nanoseconds of the median time (the median of an even window is a midpoint: x.5 s)
	SH     int       `json:"sh,omitempty"`
	Alt    [][]int   `json:"alt,omitempty"`    // extra sub-policies (paths) to opacify for the address check
	NoAddr bool      `json:"noaddr,omitempty"` // skip the address/wire part (done by a sibling case)
	Tag    string    `json:"tag,omitempty"`    // witness pattern (label only)
	Gen    string    `json:"gen,omitempty"`    // generator mode (label only)
}

const maxDecodeDepth = 32

func clip(b []byte) []byte {
	if len(b) > 160 {
		return b[:160]
	}
	return b
}

// short renders a policy for a failure message (the replay file holds the full case).
func short(n *Node) string {
	s := n.String()
	if len(s) > 1200 {
		return s[:1200] + "...(truncated, see replay)"
	}
	return s
}

func witnessText(c *Case) string {
	var sb strings.Builder
	for _, s := range c.Sigs {
		fmt.Fprintf(&sb, "s%d.%d.%d,", s.K, s.W, s.F)
	}
	sb.WriteByte('|')
	for _, p := range c.Pres {
		fmt.Fprintf(&sb, "p%d.%d,", p.I, p.F)
	}
	return sb.String()
}

// presentedDepth is the largest depth of any node of the policy as presented.
func presentedDepth(n *Node, depth int) (max int, tooWide bool) {
	max = depth
	if n.Opq || n.K != "th" {
		return
	}
	if len(n.Of) > 255 {
		tooWide = true
	}
	for i := range n.Of {
		d, w := presentedDepth(&n.Of[i], depth+1)
		if d > max {
			max = d
		}
		tooWide = tooWide || w
	}
	return
}

// anyTooWide: does the original tree contain a threshold with more than 255 children
// (its wire form, hence its address, is not defined).
func anyTooWide(n *Node) bool {
	if n.K != "th" {
		return false
	}
	if len(n.Of) > 255 {
		return true
	}
	for i := range n.Of {
		if anyTooWide(&n.Of[i]) {
			return true
		}
	}
	return false
}

func verify(p types.SpendPolicy, c *Case, msg types.Hash256, sigs []types.Signature, pres [][32]byte) bool {
	return p.Verify(c.H, time.Unix(c.T, c.TN), msg, sigs, pres) == nil
}

func libWire(p types.SpendPolicy) []byte {
	var buf bytes.Buffer
	e := types.NewEncoder(&buf)
	p.EncodeTo(e)
	e.Flush()
	return buf.Bytes()
}

func checkCase(c Case) error {
	rec := stats.G()
	root := &c.P
	if root.Opq {
		return stats.Failf("", "harness: root must not be flagged opaque")
	}
	memo := addrMemo{}
	presented := build(root, true, memo)
	msg := sigHashN(c.SH)
	sigs := make([]types.Signature, len(c.Sigs))
	for i, s := range c.Sigs {
		sigs[i] = s.sig()
	}
	pres := make([][32]byte, len(c.Pres))
	for i, p := range c.Pres {
		pres[i] = p.pre()
	}
	sh := shapeOf(root)
	want := refAccepts(root, sh, c.H, c.T, c.TN, msg, sigs, pres)
	got := verify(presented, &c, msg, sigs, pres)
	if got != want {
		key := "C14/verdict"
		for _, t := range sh.afters {
			if t > maxSafeLock {
				key = keyAfterOverflow
			}
		}
		return stats.Failf(key, "Verify accepted=%v, reference accepted=%v: policy %s height=%d time=%d sighash#%d witnesses %s [%s]",
			got, want, short(root), c.H, c.T, c.SH, witnessText(&c), c.Tag)
	}

	// ---- address commitment, wire form
	if !c.NoAddr && !anyTooWide(root) {
		if err := checkAddress(&c, root, presented, memo); err != nil {
			return err
		}
	}

	// ---- an opacified required branch is never accepted
	if got && root.K == "th" {
		spans := sh.spans
		pick := spans
		if len(spans) > 6 {
			pick = []span{spans[0], spans[len(spans)/2], spans[len(spans)-1]}
		}
		for _, sp := range pick {
			cl := cloneNode(root)
			nodeAt(&cl, sp.path).Opq = true
			m2 := addrMemo{}
			p2 := build(&cl, true, m2)
			if verify(p2, &c, msg, sigs, pres) {
				return stats.Failf("C14/opacified-accepted", "accepted after sub-policy at %v was made opaque (same witnesses): %s -> %s", sp.path, short(root), short(&cl))
			}
			s2 := append(append([]types.Signature{}, sigs[:sp.s0]...), sigs[sp.s1:]...)
			q2 := append(append([][32]byte{}, pres[:sp.p0]...), pres[sp.p1:]...)
			if verify(p2, &c, msg, s2, q2) {
				return stats.Failf("C14/opacified-accepted", "accepted after sub-policy at %v was made opaque (its witnesses removed): %s -> %s", sp.path, short(root), short(&cl))
			}
			if p2.Address() != presented.Address() && !anyTooWide(root) {
				return stats.Failf("C14/address", "address changed after opacifying %v of %s", sp.path, short(root))
			}
			rec.Label("meta:opacified-branch-rejected")
		}
	}

	// ---- evidence
	var nt bool
	kind := root.K
	if root.K == "uc" {
		nt = len(root.Keys) >= 2 && root.Req >= 1 && len(sigs) >= 1
	} else {
		nt = sh.mixed && len(sh.pks)+len(sh.hs) >= 2
	}
	verdict := "reject"
	if got {
		verdict = "accept"
	}
	labels := []string{"verdict:" + verdict, "root:" + kind}
	if c.Tag != "" {
		labels = append(labels, "witness:"+c.Tag+":"+verdict)
	}
	if c.Gen != "" {
		labels = append(labels, "gen:"+c.Gen+":"+verdict)
	}
	if root.K == "th" {
		if _, wide := presentedDepth(root, 0); wide {
			labels = append(labels, "width:>255")
		}
		d := sh.maxDepth
		switch {
		case d > 32:
			labels = append(labels, "depth:>32")
		case d > 6:
			labels = append(labels, "depth:7-32")
		default:
			labels = append(labels, fmt.Sprintf("depth:%d", d))
		}
		switch {
		case sh.total > 1024:
			labels = append(labels, "total:>1024")
		case sh.total >= 1000:
			labels = append(labels, "total:1000-1024")
		}
	}
	fp := stats.FP(root.String(), witnessText(&c), c.H, uint64(c.T), uint64(c.TN), c.SH)
	rec.Case(fp, nt, labels...)
	if rec.WantSample() {
		if b := root.String(); len(b) < 1500 {
			rec.Sample(nt, map[string]any{"policy": b, "witnesses": witnessText(&c), "height": c.H, "time": c.T, "tag": c.Tag, "accepted": got})
		}
	}
	return nil
}

// checkAddress: reference address == library address of the original policy, of the
// presented (partly opaque) policy and of the Alt-opacified policy; PolicyOpaque and
// the Standard* shortcuts agree; wire form agrees; decoding honours the depth limit.
func checkAddress(c *Case, root *Node, presented types.SpendPolicy, memo addrMemo) error {
	rec := stats.G()
	ref := refAddress(root, memo)
	orig := build(root, false, nil)
	origText, presentedText := orig.String(), presented.String()
	if a := orig.Address(); a != ref {
		return stats.Failf("C14/address", "Address(%s) = %v, reference %v", short(root), a, ref)
	}
	if a := presented.Address(); a != ref {
		return stats.Failf("C14/address", "Address of partly opaque form %v != reference %v of %s", a, ref, short(root))
	}
	// asking a policy for its address is reading it: the policy (which sits in somebody's transaction) reads the same
	// afterwards, at every level
	if orig.String() != origText || presented.String() != presentedText {
		return stats.Failf("C14/address-modifies-policy", "Address() changed the policy it was asked about: %s became %s", origText, orig.String())
	}
	if len(c.Alt) > 0 {
		cl := cloneNode(root)
		for _, path := range c.Alt {
			ok := true
			n := &cl
			for _, i := range path {
				if n.K != "th" || i < 0 || i >= len(n.Of) {
					ok = false
					break
				}
				n = &n.Of[i]
			}
			if ok && len(path) > 0 {
				n.Opq = true
			}
		}
		if a := build(&cl, true, addrMemo{}).Address(); a != ref {
			return stats.Failf("C14/address", "Address after opacifying %v = %v, reference %v; policy %s", c.Alt, a, ref, short(root))
		}
		rec.Label("addr:alt-opacified")
	}
	// PolicyOpaque keeps an opaque policy and wraps the address of anything else
	op := types.PolicyOpaque(orig)
	if root.K == "op" {
		if op.Type != orig.Type {
			return stats.Failf("C14/address", "PolicyOpaque changed an opaque policy")
		}
	} else if op.Type != types.PolicyTypeOpaque(ref) {
		return stats.Failf("C14/address", "PolicyOpaque(%s) = %v, want opaque(%v)", short(root), op, ref)
	}
	switch root.K {
	case "pk":
		if a := types.StandardAddress(pubKey(root.I)); a != ref {
			return stats.Failf("C14/address", "StandardAddress = %v, reference %v", a, ref)
		}
	case "uc":
		uc := types.UnlockConditions(orig.Type.(types.PolicyTypeUnlockConditions))
		if a := uc.UnlockHash(); a != ref {
			return stats.Failf("C14/address", "UnlockHash(%s) = %v, reference %v", short(root), a, ref)
		}
		if root.U == 0 && root.Req == 1 && len(root.Keys) == 1 && root.Keys[0].A == "ed" && root.Keys[0].L == 0 {
			if a := types.StandardUnlockHash(pubKey(root.Keys[0].I)); a != ref {
				return stats.Failf("C14/address", "StandardUnlockHash = %v, reference %v", a, ref)
			}
			rec.Label("addr:standard-uc")
		}
	}
	// wire form of the presented policy
	want := refWire([]byte{1}, root, true, memo)
	if got := libWire(presented); !bytes.Equal(got, want) {
		return stats.Failf("C14/wire", "encoding of %s differs from reference: %x vs %x", short(root), clip(got), clip(want))
	}
	depth, _ := presentedDepth(root, 0)
	var dec types.SpendPolicy
	d := types.NewBufDecoder(want)
	dec.DecodeFrom(d)
	if err := d.Err(); (err == nil) != (depth <= maxDecodeDepth) {
		return stats.Failf("C14/decode-depth", "decoding a policy of nesting depth %d: err=%v", depth, err)
	} else if err == nil {
		if !bytes.Equal(libWire(dec), want) {
			return stats.Failf("C14/wire", "decode/encode of %s is not the identity", short(root))
		}
		if dec.Address() != ref {
			return stats.Failf("C14/address", "decoded policy has a different address: %s", short(root))
		}
		rec.Label("wire:decoded")
	} else {
		rec.Label("wire:too-deep-rejected")
	}
	return nil
}

// ---- subsets enumerator for the address invariance ------------------------------------------

// AddrCase: every subset of the non-root sub-policies of P (at most 2^Max of them,
// taken in pre-order) is opacified and the address compared with the reference.
type AddrCase struct {
	P Node `json:"p"`
}

func preorder(n *Node, out *[]*Node, root bool) {
	if !root {
		*out = append(*out, n)
	}
	for i := range n.Of {
		preorder(&n.Of[i], out, false)
	}
}

func checkAddrSubsets(c AddrCase) error {
	rec := stats.G()
	root := cloneNode(&c.P)
	ref := refAddress(&c.P, nil)
	var nodes []*Node
	preorder(&root, &nodes, true)
	if len(nodes) > 14 {
		return stats.Failf("", "harness: too many nodes for the subset enumerator")
	}
	if a := build(&root, false, nil).Address(); a != ref {
		return stats.Failf("C14/address", "Address(%s) = %v, reference %v", short(&root), a, ref)
	}
	memo := addrMemo{}
	for mask := 0; mask < 1<<len(nodes); mask++ {
		for i, n := range nodes {
			n.Opq = mask>>i&1 == 1
		}
		if a := build(&root, true, memo).Address(); a != ref {
			return stats.Failf("C14/address", "Address(%s) = %v, reference %v of the original", short(&root), a, ref)
		}
	}
	mixedDepth := false
	for _, n := range nodes {
		if n.K == "th" && len(n.Of) > 0 {
			mixedDepth = true
		}
	}
	rec.Extra("address_subsets_checked", uint64(1)<<len(nodes))
	rec.Case(stats.FP("addr", c.P.String()), mixedDepth, "addr-subsets", fmt.Sprintf("addr-subsets:nodes=%d", len(nodes)))
	if rec.WantSample() {
		rec.Sample(mixedDepth, map[string]any{"policy": c.P.String(), "subsets": 1 << len(nodes)})
	}
	return nil
}

// ---- known finding ---------------------------------------------------------------------------

// TestKnown: a time lock at the top of the int64 range is satisfied immediately.
func TestKnown(t *testing.T) {
	stats.ProbeKnown(t, keyAfterOverflow, "after(t) with t > MaxInt64-62135596800 s wraps inside time.Unix and is satisfied at any median time", func() error {
		for _, lock := range []int64{math.MaxInt64, maxSafeLock + 1} {
			for _, median := range []int64{0, 1700000000} {
				p := types.PolicyThreshold(1, []types.SpendPolicy{types.PolicyAfter(time.Unix(lock, 0))})
				if p.Verify(0, time.Unix(median, 0), types.Hash256{}, nil, nil) == nil {
					return stats.Failf(keyAfterOverflow, "thresh(1,[after(%d)]) accepted at median time %d", lock, median)
				}
			}
		}
		return nil
	})
}

// ---- replay entries --------------------------------------------------------------------------

func TestReplayEnumTree(t *testing.T) { stats.Replay(t, "TestEnumTree", checkCase) }
func TestReplayEnumUC(t *testing.T)   { stats.Replay(t, "TestEnumUC", checkCase) }
func TestReplayRandom(t *testing.T)   { stats.Replay(t, "TestRandom", checkCase) }
func TestReplayLimits(t *testing.T)   { stats.Replay(t, "TestLimits", checkCase) }
func TestReplayEnumAddr(t *testing.T) { stats.Replay(t, "TestEnumAddr", checkAddrSubsets) }
