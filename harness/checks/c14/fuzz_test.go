package c14

import (
	"testing"

	"verif/harness/stats"
)

// Native coverage-guided fuzzing of the random-policy property (thorough tier): same generator, same checker.
func FuzzRandom(f *testing.F)    { stats.FuzzProp(f, "TestRandom", drawRandom, checkCase) }
func FuzzConsensus(f *testing.F) { stats.FuzzProp(f, "TestConsensus", drawConsensus, checkConsensus) }
