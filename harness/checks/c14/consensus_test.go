package c14

// The same (policy, witnesses, height, median time) decisions routed through
// consensus.ValidateV2Transaction: the policy guards an ephemeral siacoin output whose
// address is the *reference* address of the original policy, so both the address
// commitment and the verdict are exercised end to end.

import (
	"crypto/ed25519"
	"math"
	"testing"
	"time"

	"go.sia.tech/core/consensus"
	"go.sia.tech/core/types"
	"pgregory.net/rapid"
	"verif/harness/stats"
)

func spendVia(cs consensus.State, addr types.Address, sp types.SatisfiedPolicy) (types.Hash256, func(types.SatisfiedPolicy) error) {
	parent := types.V2Transaction{SiacoinOutputs: []types.SiacoinOutput{{Value: types.Siacoins(1), Address: addr}}}
	child := types.V2Transaction{
		SiacoinInputs: []types.V2SiacoinInput{{Parent: parent.EphemeralSiacoinOutput(0)}},
		MinerFee:      types.Siacoins(1),
	}
	msg := cs.InputSigHash(child)
	return msg, func(sp types.SatisfiedPolicy) error {
		ms := consensus.NewMidState(cs)
		ms.ApplyV2Transaction(parent)
		txn := child
		txn.SiacoinInputs = []types.V2SiacoinInput{{Parent: child.SiacoinInputs[0].Parent, SatisfiedPolicy: sp}}
		return consensus.ValidateV2Transaction(ms, txn)
	}
}

func checkConsensus(c Case) error {
	rec := stats.G()
	root := &c.P
	if root.Opq || anyTooWide(root) || c.H == math.MaxUint64 {
		return stats.Failf("", "harness: case outside the consensus route's domain")
	}
	memo := addrMemo{}
	presented := build(root, true, memo)
	addr := refAddress(root, memo)

	n := &consensus.Network{}
	cs := consensus.State{Network: n, Index: types.ChainIndex{Height: c.H}}
	for i := range cs.PrevTimestamps {
		cs.PrevTimestamps[i] = time.Unix(c.T, c.TN)
	}
	msg, validate := spendVia(cs, addr, types.SatisfiedPolicy{})

	sigs := make([]types.Signature, len(c.Sigs))
	for i, s := range c.Sigs {
		if s.K >= 0 && s.W == c.SH {
			copy(sigs[i][:], ed25519.Sign(ed25519.PrivateKey(privKey(s.K)), msg[:]))
			if s.F > 0 {
				b := (s.F - 1) % (64 * 8)
				sigs[i][b/8] ^= 1 << (b % 8)
			}
		} else {
			sigs[i] = s.sig() // signs an unrelated hash
		}
	}
	pres := make([][32]byte, len(c.Pres))
	for i, p := range c.Pres {
		pres[i] = p.pre()
	}
	sh := shapeOf(root)
	want := refAccepts(root, sh, c.H, c.T, c.TN, msg, sigs, pres)
	err := validate(types.SatisfiedPolicy{Policy: presented, Signatures: sigs, Preimages: pres})
	if (err == nil) != want {
		return stats.Failf("C14/consensus-verdict", "ValidateV2Transaction err=%v, reference accepted=%v: policy %s height=%d time=%d witnesses %s [%s]",
			err, want, short(root), c.H, c.T, witnessText(&c), c.Tag)
	}
	if err == nil {
		// the same satisfied policy cannot spend an output locked to another address
		other := addr
		other[7] ^= 0x10
		_, validate2 := spendVia(cs, other, types.SatisfiedPolicy{})
		if validate2(types.SatisfiedPolicy{Policy: presented, Signatures: sigs, Preimages: pres}) == nil {
			return stats.Failf("C14/consensus-address", "policy %s spent an output locked to a different address", short(root))
		}
		// and a trivially satisfiable policy cannot stand in for the committed one
		if any := types.AnyoneCanSpend(); addr != refAddress(&Node{K: "th"}, nil) {
			if validate(types.SatisfiedPolicy{Policy: any}) == nil {
				return stats.Failf("C14/consensus-address", "AnyoneCanSpend accepted for the address of %s", short(root))
			}
		}
		rec.Label("consensus:address-binding-checked")
		// the signature hash is part of the meaning wherever the verdict is formed: a second transaction validated on
		// the same MidState (same block, or a transaction pool) that spends another output of the address with this
		// transaction's witnesses is accepted exactly when the reference accepts those witnesses for ITS hash
		parent := types.V2Transaction{SiacoinOutputs: []types.SiacoinOutput{{Value: types.Siacoins(1), Address: addr}}}
		parent2 := types.V2Transaction{SiacoinOutputs: []types.SiacoinOutput{{Value: types.Siacoins(2), Address: addr}}}
		sp := types.SatisfiedPolicy{Policy: presented, Signatures: sigs, Preimages: pres}
		first := types.V2Transaction{SiacoinInputs: []types.V2SiacoinInput{{Parent: parent.EphemeralSiacoinOutput(0), SatisfiedPolicy: sp}}, MinerFee: types.Siacoins(1)}
		second := types.V2Transaction{SiacoinInputs: []types.V2SiacoinInput{{Parent: parent2.EphemeralSiacoinOutput(0), SatisfiedPolicy: sp}}, MinerFee: types.Siacoins(2)}
		ms := consensus.NewMidState(cs)
		ms.ApplyV2Transaction(parent)
		ms.ApplyV2Transaction(parent2)
		if cs.InputSigHash(first) != msg {
			return stats.Failf("", "harness: the first transaction of the replay pair has another signature hash")
		}
		if e := consensus.ValidateV2Transaction(ms, first); e != nil {
			return stats.Failf("C14/consensus-verdict/second-parent-on-midstate", "accepted witnesses are refused when the MidState holds a second parent transaction: %v (policy %s)", e, short(root))
		}
		ms.ApplyV2Transaction(first)
		want2 := refAccepts(root, sh, c.H, c.T, c.TN, cs.InputSigHash(second), sigs, pres)
		if e := consensus.ValidateV2Transaction(ms, second); (e == nil) != want2 {
			return stats.Failf("C14/consensus-verdict/witnesses-of-an-earlier-transaction", "a second transaction on the same MidState carrying the first one's witnesses: err=%v, reference accepted=%v (policy %s, witnesses %s)", e, want2, short(root), witnessText(&c))
		}
		if !want2 {
			rec.Label("consensus:replayed-witnesses-refused")
		} else {
			rec.Label("consensus:replayed-witnesses-need-no-signature")
		}
	}
	verdict := "reject"
	if err == nil {
		verdict = "accept"
	}
	var nt bool
	if root.K == "uc" {
		nt = len(root.Keys) >= 2 && root.Req >= 1 && len(sigs) >= 1
	} else {
		nt = sh.mixed && len(sh.pks)+len(sh.hs) >= 2
	}
	rec.Case(stats.FP("consensus", root.String(), witnessText(&c), c.H, uint64(c.T), uint64(c.TN)), nt, "consensus:"+verdict, "consensus:gen:"+c.Gen+":"+verdict)
	return nil
}

func drawConsensus(t *rapid.T) Case {
	c := drawRandom(t)
	if c.H == math.MaxUint64 {
		c.H-- // the child height must be representable
	}
	c.Alt = nil
	return c
}

func TestConsensus(t *testing.T)       { stats.Prop(t, drawConsensus, checkConsensus) }
func TestReplayConsensus(t *testing.T) { stats.Replay(t, "TestConsensus", checkConsensus) }
