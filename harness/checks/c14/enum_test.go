package c14

// Bounded exhaustive enumerators (plain loops, sharded by policy index).

import (
	"testing"

	"verif/harness/stats"
)

const (
	lockHeight = 100  // above(100): unsatisfied at 99, satisfied at 100 and 101
	lockTime   = 1000 // after(1000): unsatisfied at 999 and 1000, satisfied at 1001
)

func leafAbove() Node   { return Node{K: "above", U: lockHeight} }
func leafAfter() Node   { return Node{K: "after", T: lockTime} }
func leafPK(i int) Node { return Node{K: "pk", I: i} }
func leafH() Node       { return Node{K: "h"} }
func leafOp() Node      { return Node{K: "op"} }
func leafUC() Node      { return Node{K: "uc", Keys: []UKey{{A: "ed", I: 0}}, Req: 1} }

// tuples calls f with every tuple of length b over alphabet indices [0,k).
func tuples(k, b int, f func(idx []int)) {
	idx := make([]int, b)
	for {
		f(idx)
		i := b - 1
		for ; i >= 0; i-- {
			if idx[i]++; idx[i] < k {
				break
			}
			idx[i] = 0
		}
		if i < 0 {
			return
		}
	}
}

// thresholds enumerates th(n, children) for all children in alpha^b, b<=maxB, n in ns.
// With needInner >= 0 only tuples containing an element of index >= needInner are produced.
func thresholds(alpha []Node, maxB int, ns []uint8, needInner int, f func(Node)) {
	for b := 0; b <= maxB; b++ {
		if len(alpha) == 0 && b > 0 {
			break
		}
		tuples(len(alpha), b, func(idx []int) {
			if needInner >= 0 {
				has := false
				for _, i := range idx {
					has = has || i >= needInner
				}
				if !has {
					return
				}
			}
			for _, n := range ns {
				of := make([]Node, b)
				for i, j := range idx {
					of[i] = cloneNode(&alpha[j])
				}
				f(Node{K: "th", N: n, Of: of})
			}
		})
	}
}

// renumber gives every hash leaf and every raw opaque leaf its own index (depth-first),
// so that swapped preimages are observable.
func renumber(n *Node, h, o *int) {
	switch n.K {
	case "h":
		n.I = *h
		*h++
	case "op":
		n.I = *o
		*o++
	}
	for i := range n.Of {
		renumber(&n.Of[i], h, o)
	}
}

// treeSets yields the policies of the exhaustive tree enumerations for the tier.
//
//	set 0: single leaves
//	set 1: depth 1, breadth <= 3, all 7 leaf kinds (incl. a uc child), n in 0..3          (complete)
//	set 2: depth 2, breadth <= 3: children from the 6 leaf kinds + inner thresholds of breadth <= 2;
//	       quick: inner over {above, pk(k1), h, opaque}, inner n in 0..2;
//	       thorough: inner over {above, pk(k1), pk(k2), h, opaque}, inner n in 0..3; outer n in 0..3  (complete)
//	set 3 (thorough): depth 2, outer breadth <= 2, inner thresholds = all of breadth <= 3 over the 6 leaf kinds, n in 0..3
func treeSets(thorough bool, f func(set int, p Node)) {
	six := []Node{leafAbove(), leafAfter(), leafPK(0), leafPK(1), leafH(), leafOp()}
	seven := append(append([]Node{}, six...), leafUC())
	four := []Node{leafAbove(), leafPK(0), leafH(), leafOp()}
	five := []Node{leafAbove(), leafPK(0), leafPK(1), leafH(), leafOp()}
	n03 := []uint8{0, 1, 2, 3}
	n02 := []uint8{0, 1, 2}
	emit := func(set int) func(Node) {
		return func(p Node) {
			var h, o int
			renumber(&p, &h, &o)
			f(set, p)
		}
	}
	for _, l := range seven[:6] {
		emit(0)(cloneNode(&l))
	}
	thresholds(seven, 3, n03, -1, emit(1))

	var inner []Node
	if thorough {
		thresholds(five, 2, n03, -1, func(p Node) { inner = append(inner, p) })
	} else {
		thresholds(four, 2, n02, -1, func(p Node) { inner = append(inner, p) })
	}
	thresholds(append(append([]Node{}, six...), inner...), 3, n03, len(six), emit(2))

	if thorough {
		inner = nil
		thresholds(six, 3, n03, -1, func(p Node) { inner = append(inner, p) })
		thresholds(append(append([]Node{}, six...), inner...), 2, n03, len(six), emit(3))
	}
}

// witnessVariants expands one policy into cases.
func witnessVariants(p Node, deep bool, f func(Case)) {
	sh := shapeOf(&p)
	var exactS []SigSpec
	var exactP []PreSpec
	for _, k := range sh.pks {
		exactS = append(exactS, SigSpec{K: k})
	}
	for _, x := range sh.hs {
		exactP = append(exactP, PreSpec{I: x})
	}
	heights := []uint64{lockHeight}
	if len(sh.aboves) > 0 {
		heights = []uint64{lockHeight - 1, lockHeight, lockHeight + 1}
	}
	times := []int64{lockTime + 1}
	if len(sh.afters) > 0 {
		times = []int64{lockTime - 1, lockTime, lockTime + 1}
	}
	first := true
	mk := func(tag string, s []SigSpec, q []PreSpec, h uint64, t int64) {
		f(Case{P: p, Sigs: s, Pres: q, H: h, T: t, Tag: tag, NoAddr: !first})
		first = false
	}
	structurallyOK := p.K != "op" && p.K != "uc" && sh.structOK && sh.total <= 1024
	if !structurallyOK && deep {
		// depth-2 trees that no witness can satisfy: only the all-locks-satisfied corner
		heights, times = []uint64{lockHeight}, []int64{lockTime + 1}
	}
	for _, h := range heights {
		for _, t := range times {
			mk("exact", exactS, exactP, h, t)
		}
	}
	if len(sh.afters) > 0 {
		// sub-second medians on both sides of the lock second (midpoint of an even timestamp window)
		for _, tn := range []int64{1, 500_000_000, 999_999_999} {
			for _, t := range []int64{lockTime - 1, lockTime} {
				f(Case{P: p, Sigs: exactS, Pres: exactP, H: lockHeight, T: t, TN: tn, Tag: "exact-subsecond", NoAddr: true})
			}
		}
	}
	H, T := uint64(lockHeight), int64(lockTime+1)
	if len(exactS)+len(exactP) > 0 {
		mk("none", nil, nil, H, T)
	}
	if !structurallyOK {
		// the exact witnesses and no witnesses are the only interesting assignments
		if !deep || len(p.Of) < 3 {
			mk("surplus-sig", append(append([]SigSpec{}, exactS...), SigSpec{K: 0}), exactP, H, T)
		}
		return
	}
	cpS := func() []SigSpec { return append([]SigSpec{}, exactS...) }
	cpP := func() []PreSpec { return append([]PreSpec{}, exactP...) }
	for i := range exactS {
		mk("missing-sig", append(cpS()[:i], exactS[i+1:]...), exactP, H, T)
		for _, bit := range []int{1, 1 + 8*40 + 3} {
			s := cpS()
			s[i].F = bit
			mk("corrupt-sig", s, exactP, H, T)
		}
		s := cpS()
		s[i].K = 2 // a valid signature by a key that is not in the policy
		mk("foreign-sig", s, exactP, H, T)
		s = cpS()
		s[i] = SigSpec{K: -1}
		mk("zero-sig", s, exactP, H, T)
		s = cpS()
		s[i].W = 1
		mk("one-wrong-sighash", s, exactP, H, T)
		if i+1 < len(exactS) {
			s = cpS()
			s[i], s[i+1] = s[i+1], s[i]
			mk("swap-sig", s, exactP, H, T)
		}
	}
	if len(exactS) >= 3 {
		s := cpS()
		s[0], s[len(s)-1] = s[len(s)-1], s[0]
		mk("swap-sig", s, exactP, H, T)
	}
	if len(exactS) > 0 {
		s := cpS()
		for i := range s {
			s[i].W = 1
		}
		mk("wrong-sighash", s, exactP, H, T)
	}
	for i := range exactP {
		mk("missing-pre", exactS, append(cpP()[:i], exactP[i+1:]...), H, T)
		for _, bit := range []int{1, 256} {
			q := cpP()
			q[i].F = bit
			mk("corrupt-pre", exactS, q, H, T)
		}
		if i+1 < len(exactP) {
			q := cpP()
			q[i], q[i+1] = q[i+1], q[i]
			mk("swap-pre", exactS, q, H, T)
		}
	}
	mk("surplus-sig", append(cpS(), SigSpec{K: 0}), exactP, H, T)
	mk("surplus-sig", append([]SigSpec{{K: 0}}, exactS...), exactP, H, T)
	mk("surplus-pre", exactS, append(cpP(), PreSpec{I: 7}), H, T)
	mk("surplus-pre", exactS, append([]PreSpec{{I: 7}}, exactP...), H, T)
	if len(exactS) > 0 {
		mk("surplus-sig", append(cpS(), exactS[len(exactS)-1]), exactP, H, T) // the last one twice
	}
}

func TestEnumTree(t *testing.T) {
	shard, n := stats.Shard()
	var policies, cases [4]uint64
	i := 0
	treeSets(stats.Thorough(), func(set int, p Node) {
		policies[set]++
		if i++; i%n != shard {
			return
		}
		witnessVariants(p, set >= 2, func(c Case) {
			cases[set]++
			stats.Check(t, c, checkCase)
		})
	})
	names := []string{"leaves", "depth1_complete", "depth2_breadth3_reduced_inner", "depth2_outer2_full_inner"}
	for s := range policies {
		if policies[s] > 0 {
			if shard == 0 {
				stats.G().Extra("enum_tree_policies_"+names[s]+"_exhaustive", policies[s])
			}
			stats.G().Extra("enum_tree_cases_"+names[s], cases[s])
		}
	}
}

// ---- top-level unlock conditions ---------------------------------------------------------------

func TestEnumUC(t *testing.T) {
	shard, n := stats.Shard()
	maxSigs := 4
	keyKinds := []UKey{{A: "ed", I: 0}, {A: "ed", I: 1}, {A: "unknown", I: 1, L: 7}, {A: "ent", I: 2, L: 32}, {A: "ed", I: 1, L: -1}}
	sigKinds := []SigSpec{{K: 0}, {K: 1}, {K: 2}, {K: 0, F: 9}, {K: 0, W: 1}}
	var policies, cases uint64
	i := 0
	for b := 0; b <= 3; b++ {
		tuples(len(keyKinds), b, func(kidx []int) {
			for req := uint64(0); req <= 4; req++ {
				policies++
				if i++; i%n != shard {
					continue
				}
				p := Node{K: "uc", U: lockHeight, Req: req}
				for _, k := range kidx {
					p.Keys = append(p.Keys, keyKinds[k])
				}
				first := true
				for l := 0; l <= maxSigs; l++ {
					tuples(len(sigKinds), l, func(sidx []int) {
						sigs := make([]SigSpec, l)
						for a, s := range sidx {
							sigs[a] = sigKinds[s]
						}
						for _, h := range []uint64{lockHeight - 1, lockHeight, lockHeight + 1} {
							cases++
							stats.Check(t, Case{P: p, Sigs: sigs, H: h, T: lockTime, Tag: "uc-enum", NoAddr: !first}, checkCase)
							first = false
						}
						if l <= 2 {
							cases++
							stats.Check(t, Case{P: p, Sigs: sigs, Pres: []PreSpec{{I: 0}}, H: lockHeight, T: lockTime, Tag: "uc-surplus-pre", NoAddr: true}, checkCase)
						}
					})
				}
				// the same conditions without a timelock (standard form when one ed25519 key / 1 required)
				p0 := p
				p0.U = 0
				cases++
				stats.Check(t, Case{P: p0, Sigs: []SigSpec{{K: 0}}, H: 0, T: 0, Tag: "uc-enum"}, checkCase)
			}
		})
	}
	if shard == 0 {
		stats.G().Extra("enum_uc_policies_exhaustive", policies)
	}
	stats.G().Extra("enum_uc_cases", cases)
}

// ---- address invariance under every subset of opacified sub-policies -----------------------------

func TestEnumAddr(t *testing.T) {
	shard, n := stats.Shard()
	six := []Node{leafAbove(), leafAfter(), leafPK(0), leafPK(1), leafH(), leafOp()}
	seven := append(append([]Node{}, six...), leafUC())
	var policies uint64
	i := 0
	run := func(p Node) {
		var h, o int
		renumber(&p, &h, &o)
		policies++
		if i++; i%n != shard {
			return
		}
		stats.Check(t, AddrCase{P: p}, checkAddrSubsets)
	}
	ns := []uint8{0, 1, 2, 3}
	// depth 1, complete
	thresholds(seven, 3, ns, -1, run)
	// depth 2: outer breadth <= 2 over 7 leaves + inner (breadth <= 2 over 7 leaves, n in {0,1,2})
	var inner []Node
	thresholds(seven, 2, []uint8{0, 1, 2}, -1, func(p Node) { inner = append(inner, p) })
	thresholds(append(append([]Node{}, seven...), inner...), 2, ns, len(seven), run)
	// depth 3 chains with siblings: th(1,[x, th(1,[y, th(n,[z..])])])
	for _, in := range inner {
		for _, x := range seven {
			for _, y := range seven {
				mid := Node{K: "th", N: 1, Of: []Node{cloneNode(&y), cloneNode(&in)}}
				run(Node{K: "th", N: 2, Of: []Node{cloneNode(&x), mid}})
			}
		}
	}
	if shard == 0 {
		stats.G().Extra("enum_addr_policies_exhaustive", policies)
	}
}
