package c14

import (
	"fmt"
	"sync"
	"testing"

	"go.sia.tech/core/types"
	"pgregory.net/rapid"

	"verif/harness/stats"
)

// Concurrent callers. Address, Verify and the wire form are functions of the policy and its witnesses; a node verifies
// the inputs of many transactions at once. Every worker owns one generated case: its policy's address, its verdict and
// its encoding are computed once sequentially, then all workers recompute them over and over, released together, and
// every result must equal the sequential one.

// ConcCase is a set of independent cases, one per goroutine.
type ConcCase struct {
	Cases  []Case `json:"cases"`
	Rounds int    `json:"rounds"`
}

func drawConc(t *rapid.T) ConcCase {
	c := ConcCase{Rounds: rapid.IntRange(20, 200).Draw(t, "rounds")}
	for i := rapid.IntRange(2, 8).Draw(t, "workers"); i > 0; i-- {
		c.Cases = append(c.Cases, drawRandom(t))
	}
	return c
}

func checkConc(c ConcCase) error {
	type job struct {
		p     types.SpendPolicy
		c     *Case
		msg   types.Hash256
		sigs  []types.Signature
		pres  [][32]byte
		addr  types.Address
		ok    bool
		wire  string
		wideP bool
	}
	jobs := make([]job, len(c.Cases))
	for i := range c.Cases {
		cc := &c.Cases[i]
		j := &jobs[i]
		j.c = cc
		j.p = build(&cc.P, true, addrMemo{})
		j.msg = sigHashN(cc.SH)
		for _, s := range cc.Sigs {
			j.sigs = append(j.sigs, s.sig())
		}
		for _, p := range cc.Pres {
			j.pres = append(j.pres, p.pre())
		}
		j.wideP = anyTooWide(&cc.P)
		j.ok = verify(j.p, cc, j.msg, j.sigs, j.pres)
		if !j.wideP {
			j.addr = j.p.Address()
			j.wire = string(libWire(j.p))
		}
	}
	var mu sync.Mutex
	var first error
	fail := func(w int, format string, args ...any) {
		mu.Lock()
		if first == nil {
			first = stats.Failf("C14/concurrent", "goroutine %d of %d: %s (policy %s)", w, len(jobs), fmt.Sprintf(format, args...), short(&jobs[w].c.P))
		}
		mu.Unlock()
	}
	start := make(chan struct{})
	var wg sync.WaitGroup
	for w := range jobs {
		wg.Add(1)
		go func(w int) {
			defer wg.Done()
			defer func() {
				if r := recover(); r != nil {
					fail(w, "panic: %v", r)
				}
			}()
			j := jobs[w]
			<-start
			for r := 0; r < c.Rounds; r++ {
				if !j.wideP {
					if got := j.p.Address(); got != j.addr {
						fail(w, "round %d: Address() = %v while other goroutines compute addresses, %v when computed alone", r, got, j.addr)
						return
					}
					if got := string(libWire(j.p)); got != j.wire {
						fail(w, "round %d: the policy's encoding differs from the one produced alone", r)
						return
					}
				}
				if got := verify(j.p, j.c, j.msg, j.sigs, j.pres); got != j.ok {
					fail(w, "round %d: Verify accepted=%v while other goroutines verify, %v when run alone", r, got, j.ok)
					return
				}
			}
		}(w)
	}
	close(start)
	wg.Wait()
	if first != nil {
		return first
	}
	stats.G().Case(stats.FP("conc", len(jobs), c.Rounds, fmt.Sprint(jobs[0].addr)), len(jobs) >= 3, fmt.Sprintf("concurrent-workers:%d", len(jobs)))
	return nil
}

func TestConcurrent(t *testing.T)       { stats.Prop(t, drawConc, checkConc) }
func TestReplayConcurrent(t *testing.T) { stats.Replay(t, "TestConcurrent", checkConc) }
