// C05 — Element proofs survive every apply/revert; roots equal the true Merkle forest.
//
// Three generators: (i) TestExhaustive: unsigned synthetic blocks through ApplyBlock /
// RevertBlock (which do not validate): every leaf count n <= N, every subset of the spendable
// existing leaves spent in one block, every growth g, then the revert; (ii) TestRandom:
// random long apply/revert interleavings of synthetic blocks up to thousands of leaves;
// (iii) TestChains: the signed simulator chains (all six element kinds, reorgs).
// Oracle: the naive forest (harness/ref: list of all leaves, every node recomputed with
// x/crypto BLAKE2b from hand-written element encodings): State.Elements roots and leaf count
// equal it, every client-maintained proof equals the naive path of the leaf with its current
// spent flag and is accepted (spent ones refused) by ValidateTransactionElements, and
// ForEachTreeNode reports exactly the changed nodes with the naive hashes.
package c05

import (
	"fmt"
	"testing"
	"time"

	"go.sia.tech/core/consensus"
	"go.sia.tech/core/types"
	"pgregory.net/rapid"
	"verif/harness/ref"
	"verif/harness/sim"
	"verif/harness/stats"
)

func TestMain(m *testing.M) { stats.Main(m) }

// verifyStore checks every tracked element of the store against state cs and the naive forest.
func verifyStore(cs consensus.State, st *sim.Store, built *ref.Built) (int, error) {
	n := 0
	acc := cs.Elements
	if err := sim.CheckRoots(acc, built); err != nil {
		return 0, stats.Failf("C05/roots", "height %d: %v", cs.Index.Height, err)
	}
	fail := func(kind string, id any, err error) error {
		return stats.Failf("C05/proof", "height %d: %s %v: %v", cs.Index.Height, kind, id, err)
	}
	for _, e := range st.SortedSC() {
		n++
		if err := sim.ProofEquals(e.StateElement, built); err != nil {
			return n, fail("siacoin element", e.ID, err)
		}
		if !sim.LiveSC(acc, e) {
			return n, fail("siacoin element", e.ID, fmt.Errorf("unspent element with maintained proof refused"))
		}
	}
	for _, e := range st.SortedSF() {
		n++
		if err := sim.ProofEquals(e.StateElement, built); err != nil {
			return n, fail("siafund element", e.ID, err)
		}
		if !sim.LiveSF(acc, e) {
			return n, fail("siafund element", e.ID, fmt.Errorf("unspent element with maintained proof refused"))
		}
	}
	for _, e := range st.SortedFC() {
		n++
		if err := sim.ProofEquals(e.StateElement, built); err != nil {
			return n, fail("contract", e.ID, err)
		}
	}
	for _, e := range st.SortedV2FC() {
		n++
		if err := sim.ProofEquals(e.StateElement, built); err != nil {
			return n, fail("v2 contract", e.ID, err)
		}
		if !sim.LiveV2FC(acc, e) || !sim.LiveV2FCRes(acc, e) {
			return n, fail("v2 contract", e.ID, fmt.Errorf("unresolved contract with maintained proof refused"))
		}
	}
	for _, e := range st.CI {
		n++
		if err := sim.ProofEquals(e.StateElement, built); err != nil {
			return n, fail("chain index", e.ChainIndex, err)
		}
		if !sim.LiveCI(acc, e) {
			return n, fail("chain index", e.ChainIndex, fmt.Errorf("ancestor with maintained proof refused"))
		}
	}
	// spent / resolved elements: proof is the path of the spent-flagged leaf; as unspent they are refused
	for _, e := range st.SpentSC {
		n++
		if err := sim.ProofEquals(e.StateElement, built); err != nil {
			return n, fail("spent siacoin element", e.ID, err)
		}
		if sim.LiveSC(acc, e) {
			return n, fail("spent siacoin element", e.ID, fmt.Errorf("accepted as unspent"))
		}
	}
	for _, e := range st.SpentSF {
		n++
		if err := sim.ProofEquals(e.StateElement, built); err != nil {
			return n, fail("spent siafund element", e.ID, err)
		}
		if sim.LiveSF(acc, e) {
			return n, fail("spent siafund element", e.ID, fmt.Errorf("accepted as unspent"))
		}
	}
	for _, e := range st.ResolvedFC {
		n++
		if err := sim.ProofEquals(e.StateElement, built); err != nil {
			return n, fail("resolved contract", e.ID, err)
		}
	}
	for _, e := range st.ResolvedV2FC {
		n++
		if err := sim.ProofEquals(e.StateElement, built); err != nil {
			return n, fail("resolved v2 contract", e.ID, err)
		}
		if sim.LiveV2FC(acc, e) {
			return n, fail("resolved v2 contract", e.ID, fmt.Errorf("accepted as unresolved"))
		}
	}
	return n, nil
}

// treeNodes checks ForEachTreeNode of an update against the naive forests before (oldB) and after (newB) it: every
// reported node is a node of the forest after the update with the naive hash, no node is reported twice, and every node
// of the forest after the update that is new or differs from the forest before it is reported. For a revert update the
// forest "after" is the restored pre-block forest and the forest "before" the post-block one (every node of the restored
// forest also exists in the larger one, so "new" never applies and exactly the restored nodes must be reported).
func treeNodes(au interface {
	ForEachTreeNode(func(row, col uint64, h types.Hash256))
}, oldB, newB *ref.Built) error {
	reported := map[[2]uint64]ref.H{}
	var dup error
	au.ForEachTreeNode(func(row, col uint64, h types.Hash256) {
		k := [2]uint64{row, col}
		if _, ok := reported[k]; ok && dup == nil {
			dup = fmt.Errorf("node (%d,%d) reported twice", row, col)
		}
		reported[k] = ref.H(h)
	})
	if dup != nil {
		return dup
	}
	for k, h := range reported {
		want, ok := newB.Node(int(k[0]), k[1])
		if !ok {
			return fmt.Errorf("node (%d,%d) reported but not part of the new forest", k[0], k[1])
		}
		if want != h {
			return fmt.Errorf("node (%d,%d) reported with a hash that differs from the naive forest", k[0], k[1])
		}
	}
	// every node of the new forest that is new or changed must have been reported
	n := newB.N()
	for row := 0; row < 64 && (n>>row) > 0; row++ {
		for col := uint64(0); col < (n>>row)+1; col++ {
			nh, ok := newB.Node(row, col)
			if !ok {
				continue
			}
			oh, had := oldB.Node(row, col)
			if (!had || oh != nh) && reported[[2]uint64{uint64(row), col}] != nh {
				return fmt.Errorf("node (%d,%d) changed but was not reported by ForEachTreeNode", row, col)
			}
		}
	}
	return nil
}

// ---- (iii) signed chains ----------------------------------------------------------------

func drawChain(t *rapid.T) sim.ChainCase {
	g := sim.GenChain(t, sim.GenOpts{
		Net:       sim.NetOpts{MaxForkHeight: rapid.SampledFrom([]int{6, 12, 25}).Draw(t, "forkSpan"), V2Only: rapid.IntRange(0, 3).Draw(t, "v2only") == 0},
		MinBlocks: 6, MaxBlocks: 36, Reorgs: true, MaxReorg: 6, Profile: sim.Profile{Contracts: 1, MaxTxns: 6},
		StrayProofs: true, // valid blocks whose ephemeral parents carry meaningless proofs
	})
	c, err := g.Case.Normalize()
	if err != nil {
		panic(err)
	}
	return c
}

func checkChain(c sim.ChainCase) error {
	rec := stats.G()
	ft := &sim.ForestTracker{}
	elements, steps, maxLeaves := 0, 0, uint64(0)
	sawRevertReapply, sawMerge := false, false
	reverted := false
	// a wallet-style client that only ever calls UpdateElementProof, and a twin that applies the same updates later
	fw := sim.NewFollowers(1 + len(c.Steps)%4)
	follow := func(err error, b *ref.Built, what string) error {
		if err == nil {
			_, err = fw.Verify(b)
		}
		if err != nil {
			return stats.Failf("C05/follower", "%s: %v", what, err)
		}
		return nil
	}
	hooks := sim.Hooks{
		Genesis: func(ch *sim.Chain, au consensus.ApplyUpdate) error {
			if err := ft.Apply(0, ch.Tip().Elements.NumLeaves, au); err != nil {
				return stats.Failf("C05/forest", "genesis: %v", err)
			}
			n, err := verifyStore(ch.Tip(), ch.Store, ft.Tip().Build())
			elements += n
			if err == nil {
				err = follow(fw.Apply(au, ch.Tip().Elements.NumLeaves, ch.Store), ft.Tip().Build(), "genesis")
			}
			return err
		},
		AfterApply: func(ch *sim.Chain, st *sim.Step, parent consensus.State, au consensus.ApplyUpdate) error {
			oldB := ft.Tip().Build()
			if err := ft.Apply(parent.Elements.NumLeaves, ch.Tip().Elements.NumLeaves, au); err != nil {
				return stats.Failf("C05/forest", "height %d: %v", ch.Height(), err)
			}
			newB := ft.Tip().Build()
			n, err := verifyStore(ch.Tip(), ch.Store, newB)
			elements += n
			steps++
			if err != nil {
				return err
			}
			if err := treeNodes(au, oldB, newB); err != nil {
				return stats.Failf("C05/tree-nodes", "height %d: %v", ch.Height(), err)
			}
			if err := follow(fw.Apply(au, ch.Tip().Elements.NumLeaves, ch.Store), newB, fmt.Sprintf("apply height %d", ch.Height())); err != nil {
				return err
			}
			// the elements a block creates are handed out as the caller's own: a wallet that keeps them as they are
			// (Move) and refreshes each with the later updates must not, by refreshing one, write into another
			if err := sim.ElementsHazard(au); err != nil {
				return stats.Failf("C05/created-elements-share-memory", "height %d: %v", ch.Height(), err)
			}
			if err := sim.IngestThenRefresh(au, newB); err != nil {
				return stats.Failf("C05/ingest-then-refresh", "height %d: %v", ch.Height(), err)
			}
			updated := len(au.SiacoinElementDiffs()) > 0
			if o, nn := parent.Elements.NumLeaves, ch.Tip().Elements.NumLeaves; updated && (o^nn) > o {
				sawMerge = true // growth carried into a higher bit: trees merged
			}
			if reverted {
				sawRevertReapply = true
			}
			if nn := ch.Tip().Elements.NumLeaves; nn > maxLeaves {
				maxLeaves = nn
			}
			return nil
		},
		AfterRevert: func(ch *sim.Chain, st *sim.Step, b types.Block, bs consensus.V1BlockSupplement, ru consensus.RevertUpdate) error {
			postB := ft.Tip().Build()
			ft.Revert()
			reverted = true
			n, err := verifyStore(ch.Tip(), ch.Store, ft.Tip().Build())
			elements += n
			steps++
			if err == nil {
				if terr := treeNodes(ru, postB, ft.Tip().Build()); terr != nil {
					err = stats.Failf("C05/tree-nodes-revert", "revert to height %d: %v", ch.Height(), terr)
				}
			}
			if err == nil {
				err = follow(fw.Revert(ru, ch.Tip().Elements.NumLeaves), ft.Tip().Build(), fmt.Sprintf("revert to height %d", ch.Height()))
			}
			return err
		},
	}
	ch, err := sim.Replay(c, hooks)
	if err != nil {
		if _, ok := err.(*stats.Failure); ok {
			return err
		}
		return stats.Failf("C05/replay", "%v", err)
	}
	if err := follow(fw.Flush(), ft.Tip().Build(), "end of history"); err != nil {
		return err
	}
	rec.Extra("follower_twin_catchups", uint64(fw.Flushes))
	nt := sawMerge || sawRevertReapply
	tip := ch.Tip().Index.ID
	labels := []string{"gen:signed-chain"}
	if sawMerge {
		labels = append(labels, "update+merge")
	}
	if sawRevertReapply {
		labels = append(labels, "revert-then-apply")
	}
	rec.Case(stats.FP(tip[:], len(c.Steps)), nt, labels...)
	rec.Extra("chain_element_proofs_checked", uint64(elements))
	rec.Extra("chain_steps", uint64(steps))
	if rec.WantSample() {
		rec.Sample(nt, map[string]any{"gen": "signed-chain", "steps": len(c.Steps), "leaves": maxLeaves, "proofs_checked": elements})
	}
	return nil
}

func TestChains(t *testing.T)       { stats.Prop(t, drawChain, checkChain) }
func TestReplayChains(t *testing.T) { stats.Replay(t, "TestChains", checkChain) }
func TestRegress(t *testing.T)      { stats.Regress(t, "TestChains", checkChain) }

// ---- synthetic (unsigned) histories -------------------------------------------------------

// SynCase is a history of synthetic blocks: Genesis outputs, then operations. Each apply
// spends the existing unspent siacoin leaves selected by the bitmask (bit i = i-th oldest
// unspent output) and creates Grow-1 new outputs (+1 chain index leaf).
type SynCase struct {
	GenesisOutputs int     `json:"genesisOutputs"`
	Ops            []SynOp `json:"ops"`
}

// SynOp is one operation.
type SynOp struct {
	Revert bool   `json:"revert,omitempty"`
	Spend  uint64 `json:"spend"` // bitmask over unspent outputs (oldest first), modulo their number
	Grow   int    `json:"grow"`  // leaves added by the block (>= 1: the chain index leaf)
}

func synNetwork() *consensus.Network {
	n := &consensus.Network{Name: "syn", InitialTarget: sim.MaxTarget, BlockInterval: 10 * time.Minute}
	n.InitialCoinbase, n.MinimumCoinbase = types.Siacoins(1), types.Siacoins(1)
	n.HardforkASIC.NonceFactor = 1
	n.HardforkASIC.OakTarget = sim.MaxTarget
	n.HardforkASIC.OakTime = 10000 * time.Second
	n.HardforkOak.GenesisTimestamp = time.Unix(1_600_000_000, 0)
	n.HardforkV2.RequireHeight, n.HardforkV2.FinalCutHeight = 1, 1 // genesis (height 0) allocates through a v1 transaction
	n.HardforkFoundation.PrimaryAddress = types.VoidAddress        // no subsidy leaves
	n.HardforkFoundation.FailsafeAddress = types.VoidAddress
	return n
}

func checkSyn(c SynCase) error {
	rec := stats.G()
	n := synNetwork()
	genesis := types.Block{Timestamp: n.HardforkOak.GenesisTimestamp}
	if c.GenesisOutputs > 0 {
		var txn types.Transaction
		for i := 0; i < c.GenesisOutputs; i++ {
			txn.SiacoinOutputs = append(txn.SiacoinOutputs, types.SiacoinOutput{Value: types.NewCurrency64(uint64(i) + 1), Address: types.Address{byte(i), 1}})
		}
		genesis.Transactions = []types.Transaction{txn}
	}
	ch, au, err := sim.NewChain(n, genesis)
	if err != nil {
		return stats.Failf("C05/syn", "genesis: %v", err)
	}
	ft := &sim.ForestTracker{}
	if err := ft.Apply(0, ch.Tip().Elements.NumLeaves, au); err != nil {
		return stats.Failf("C05/forest", "genesis: %v", err)
	}
	if _, err := verifyStore(ch.Tip(), ch.Store, ft.Tip().Build()); err != nil {
		return err
	}
	fw := sim.NewFollowers(1 + len(c.Ops)%4)
	follow := func(err error, b *ref.Built, what string) error {
		if err == nil {
			_, err = fw.Verify(b)
		}
		if err != nil {
			return stats.Failf("C05/follower", "%s: %v", what, err)
		}
		return nil
	}
	if err := follow(fw.Apply(au, ch.Tip().Elements.NumLeaves, ch.Store), ft.Tip().Build(), "genesis"); err != nil {
		return err
	}
	nt := false
	proofs := 0
	serial := uint64(1000)
	for i, op := range c.Ops {
		if op.Revert {
			if ch.Height() == 0 {
				continue
			}
			ru, err := ch.Revert()
			if err != nil {
				return stats.Failf("C05/syn", "op %d revert: %v", i, err)
			}
			postB := ft.Tip().Build()
			ft.Revert()
			k, err := verifyStore(ch.Tip(), ch.Store, ft.Tip().Build())
			proofs += k
			if err != nil {
				return fmt.Errorf("op %d (revert): %w", i, err)
			}
			if err := treeNodes(ru, postB, ft.Tip().Build()); err != nil {
				return stats.Failf("C05/tree-nodes-revert", "op %d (revert): %v", i, err)
			}
			if err := follow(fw.Revert(ru, ch.Tip().Elements.NumLeaves), ft.Tip().Build(), fmt.Sprintf("op %d (revert)", i)); err != nil {
				return err
			}
			continue
		}
		parent := ch.Tip()
		unspent := ch.Store.SortedSC()
		// oldest first = by leaf index
		for a := 1; a < len(unspent); a++ {
			for b := a; b > 0 && unspent[b].StateElement.LeafIndex < unspent[b-1].StateElement.LeafIndex; b-- {
				unspent[b], unspent[b-1] = unspent[b-1], unspent[b]
			}
		}
		var txn types.V2Transaction
		spent := 0
		for j, e := range unspent {
			if j < 64 && op.Spend&(1<<uint(j)) != 0 {
				txn.SiacoinInputs = append(txn.SiacoinInputs, types.V2SiacoinInput{Parent: e.Copy()})
				spent++
			}
		}
		grow := op.Grow
		if grow < 1 {
			grow = 1
		}
		for j := 0; j < grow-1; j++ {
			serial++
			txn.SiacoinOutputs = append(txn.SiacoinOutputs, types.SiacoinOutput{Value: types.NewCurrency64(serial), Address: types.Address{byte(serial), byte(serial >> 8), 2}})
		}
		blk := types.Block{ParentID: parent.Index.ID, Timestamp: parent.PrevTimestamps[0].Add(n.BlockInterval), V2: &types.V2BlockData{Height: parent.Index.Height + 1}}
		if len(txn.SiacoinInputs) > 0 || len(txn.SiacoinOutputs) > 0 {
			blk.V2.Transactions = []types.V2Transaction{txn}
		}
		oldB := ft.Tip().Build()
		au, err := ch.ApplyUnchecked(blk, consensus.V1BlockSupplement{})
		if err != nil {
			return stats.Failf("C05/syn", "op %d apply: %v", i, err)
		}
		if err := ft.Apply(parent.Elements.NumLeaves, ch.Tip().Elements.NumLeaves, au); err != nil {
			return stats.Failf("C05/forest", "op %d: %v", i, err)
		}
		newB := ft.Tip().Build()
		k, err := verifyStore(ch.Tip(), ch.Store, newB)
		proofs += k
		if err != nil {
			return fmt.Errorf("op %d (apply spend=%b grow=%d on %d leaves): %w", i, op.Spend, grow, parent.Elements.NumLeaves, err)
		}
		if err := treeNodes(au, oldB, newB); err != nil {
			return stats.Failf("C05/tree-nodes", "op %d (apply spend=%b grow=%d on %d leaves): %v", i, op.Spend, grow, parent.Elements.NumLeaves, err)
		}
		if err := follow(fw.Apply(au, ch.Tip().Elements.NumLeaves, ch.Store), newB, fmt.Sprintf("op %d (apply spend=%b grow=%d on %d leaves)", i, op.Spend, grow, parent.Elements.NumLeaves)); err != nil {
			return err
		}
		if o, nn := parent.Elements.NumLeaves, ch.Tip().Elements.NumLeaves; spent > 0 && (o^nn) > o {
			nt = true
		}
	}
	if err := follow(fw.Flush(), ft.Tip().Build(), "end of history"); err != nil {
		return err
	}
	rec.Extra("synthetic_element_proofs_checked", uint64(proofs))
	fp := stats.FP(c.GenesisOutputs, fmt.Sprint(c.Ops))
	rec.Case(fp, nt, "gen:synthetic")
	if rec.WantSample() && nt {
		rec.Sample(nt, c)
	}
	return nil
}

// TestExhaustive: for every n = k+1 leaves (k genesis outputs + chain index), every subset of the
// k spendable leaves, every growth g in 1..G: apply, check, revert, check.
func TestExhaustive(t *testing.T) {
	maxK := stats.EnvInt("C05_MAXK", 8)
	maxG := stats.EnvInt("C05_MAXG", 9)
	shard, ns := stats.Shard()
	i := 0
	for k := 0; k <= maxK; k++ {
		for mask := uint64(0); mask < 1<<uint(k); mask++ {
			for g := 1; g <= maxG; g++ {
				if i++; i%ns != shard {
					continue
				}
				// a second block on top exercises proofs of leaves created by the first
				c := SynCase{GenesisOutputs: k, Ops: []SynOp{{Spend: mask, Grow: g}, {Revert: true}, {Spend: mask, Grow: g}, {Spend: mask >> 1, Grow: (g % 3) + 1}, {Revert: true}, {Revert: true}}}
				stats.Check(t, c, checkSyn)
			}
		}
	}
	stats.G().Extra("exhaustive_max_leaves", uint64(maxK+1))
	stats.G().Extra("exhaustive_max_growth", uint64(maxG))
	stats.G().Extra("exhaustive_cases_total", uint64(i))
}

func drawSyn(t *rapid.T) SynCase {
	c := SynCase{GenesisOutputs: rapid.IntRange(0, 40).Draw(t, "genesis")}
	// leaf-count patterns: draw growths so that counts pass through all-ones / single-bit / alternating values
	nOps := rapid.IntRange(3, 40).Draw(t, "nOps")
	depth := 0
	for i := 0; i < nOps; i++ {
		if depth > 0 && rapid.IntRange(0, 3).Draw(t, "revert") == 0 {
			c.Ops = append(c.Ops, SynOp{Revert: true})
			depth--
			continue
		}
		grow := rapid.IntRange(1, 12).Draw(t, "grow")
		switch rapid.IntRange(0, 9).Draw(t, "growClass") {
		case 0:
			grow = rapid.IntRange(13, 300).Draw(t, "growBig")
		case 1:
			grow = 1 << uint(rapid.IntRange(0, 8).Draw(t, "growPow"))
		case 2:
			grow = 1<<uint(rapid.IntRange(1, 8).Draw(t, "growPow")) - 1
		}
		c.Ops = append(c.Ops, SynOp{Spend: rapid.Uint64().Draw(t, "spend") & rapid.Uint64().Draw(t, "spendMask"), Grow: grow})
		if depth < 8 {
			depth++
		}
	}
	return c
}

func TestRandom(t *testing.T)           { stats.Prop(t, drawSyn, checkSyn) }
func TestReplayRandom(t *testing.T)     { stats.Replay(t, "TestRandom", checkSyn) }
func TestReplayExhaustive(t *testing.T) { stats.Replay(t, "TestExhaustive", checkSyn) }
