package c07

import (
	"fmt"
	"testing"

	"go.sia.tech/core/consensus"
	rhp2 "go.sia.tech/core/rhp/v2"
	"go.sia.tech/core/types"
	"pgregory.net/rapid"
	"verif/harness/sim"
	"verif/harness/stats"
)

// ---------------------------------------------------------------- sector-sized contracts on a chain
//
// Contracts over whole 4 MiB sectors (1..3 sectors, thorough 1..5: trees of depth 16..19 with
// non-power-of-two sector counts), proven by the library's own provers the way a host does it
// (rhp2.BuildProof + rhp2.BuildSectorRangeProof + rhp2.ConvertProofOrdering). Completeness: every
// such proof is accepted (all v1 eras and v2). Soundness: the usual ContractProbes, whose unsound
// proofs come from the harness's reference tree. Payouts: the ledger, as in TestContracts.

func drawSectors(t *rapid.T) sim.ChainCase {
	sectors := 3
	if stats.Thorough() {
		sectors = 5
	}
	g := sim.GenChain(t, sim.GenOpts{
		Net: sim.NetOpts{MaxForkHeight: rapid.SampledFrom([]int{6, 12}).Draw(t, "forkSpan"), V2Only: rapid.IntRange(0, 2).Draw(t, "v2only") == 0,
			ProofEraSpread: rapid.SampledFrom([]int{0, 4, 8}).Draw(t, "eraSpread")},
		MinBlocks: 6, MaxBlocks: 16, Profile: sim.Profile{Contracts: 6, MaxTxns: 4},
		Sectors: sectors, LibProver: true,
		BeforeApply: func(g *sim.Gen, honest types.Block, bs consensus.V1BlockSupplement) {
			proofs := 0
			for _, txn := range honest.Transactions {
				proofs += len(txn.StorageProofs)
			}
			for _, txn := range honest.V2Transactions() {
				for _, r := range txn.FileContractResolutions {
					if _, ok := r.Resolution.(*types.V2StorageProof); ok {
						proofs++
					}
				}
			}
			if proofs > 0 {
				g.NewAdv(honest).ContractProbes()
			}
		},
	})
	c, err := g.Case.Normalize()
	if err != nil {
		panic(err)
	}
	return c
}

func TestSectorContracts(t *testing.T)       { stats.Prop(t, drawSectors, check) }
func TestReplaySectorContracts(t *testing.T) { stats.Replay(t, "TestSectorContracts", check) }

// ---------------------------------------------------------------- library prover == reference prover

// ProverCase names a sector file and the leaves to prove.
type ProverCase struct {
	Seed    uint64   `json:"seed"`
	Sectors int      `json:"sectors"`
	Indices []uint64 `json:"indices"`
}

func drawProver(t *rapid.T) ProverCase {
	max := 3
	if stats.Thorough() {
		max = 6
	}
	c := ProverCase{Seed: uint64(rapid.IntRange(0, 2).Draw(t, "seed")), Sectors: rapid.IntRange(1, max).Draw(t, "sectors")}
	n := uint64(c.Sectors) * rhp2.LeavesPerSector
	for i := 0; i < 24; i++ {
		var idx uint64
		switch rapid.IntRange(0, 4).Draw(t, "indexClass") {
		case 0: // around a sector boundary
			idx = uint64(rapid.IntRange(0, c.Sectors).Draw(t, "sector"))*rhp2.LeavesPerSector + uint64(rapid.IntRange(-2, 2).Draw(t, "off")+2) - 2
		case 1: // around a power of two
			idx = uint64(1)<<uint(rapid.IntRange(0, 18).Draw(t, "pow")) + uint64(rapid.IntRange(-1, 1).Draw(t, "off")+1) - 1
		case 2:
			idx = n - 1 - uint64(rapid.IntRange(0, 3).Draw(t, "fromEnd"))
		default:
			idx = rapid.Uint64Range(0, n-1).Draw(t, "idx")
		}
		if idx < n {
			c.Indices = append(c.Indices, idx)
		}
	}
	return c
}

func checkProver(c ProverCase) error {
	if c.Sectors < 1 || c.Sectors > 8 {
		return fmt.Errorf("harness: bad sector count %d", c.Sectors)
	}
	rec := stats.G()
	data, root := sim.SectorFileCached(c.Seed, c.Sectors)
	tree := sim.RefTree(data, root)
	roots := sim.LibSectorRoots(data)
	if got := rhp2.MetaRoot(roots); got != root {
		return stats.Failf("C07/prover/root", "file of %d sectors (seed %d): rhp2.MetaRoot over rhp2.SectorRoot gives %v, the RFC 6962 root over the 64-byte leaves is %v", c.Sectors, c.Seed, got, root)
	}
	nt := false
	for _, idx := range c.Indices {
		if idx >= uint64(tree.NumLeaves()) {
			continue
		}
		leaf, path := sim.LibFileProof(data, idx)
		wleaf, wpath := tree.Proof(int(idx))
		if leaf != wleaf {
			return stats.Failf("C07/prover/leaf", "file of %d sectors (seed %d), leaf %d: the library prover returns a different leaf than the data holds", c.Sectors, c.Seed, idx)
		}
		if len(path) != len(wpath) {
			return stats.Failf("C07/prover/path", "file of %d sectors (seed %d), leaf %d: library proof has %d hashes, the audit path has %d", c.Sectors, c.Seed, idx, len(path), len(wpath))
		}
		for i := range path {
			if path[i] != types.Hash256(wpath[i]) {
				return stats.Failf("C07/prover/path", "file of %d sectors (seed %d), leaf %d: library proof differs from the audit path at position %d of %d", c.Sectors, c.Seed, idx, i, len(path))
			}
		}
		nt = nt || idx >= rhp2.LeavesPerSector || c.Sectors&(c.Sectors-1) != 0
		rec.Extra("prover_paths_compared", 1)
	}
	rec.Case(stats.FP("prover", c.Seed, c.Sectors, fmt.Sprint(c.Indices)), nt, fmt.Sprintf("prover-sectors:%d", c.Sectors))
	if nt && rec.WantSample() {
		rec.Sample(true, map[string]any{"unit": "prover", "sectors": c.Sectors, "seed": c.Seed, "indices": c.Indices})
	}
	return nil
}

func TestSectorProver(t *testing.T)       { stats.Prop(t, drawProver, checkProver) }
func TestReplaySectorProver(t *testing.T) { stats.Replay(t, "TestSectorProver", checkProver) }
