package c07

import (
	"testing"

	"go.sia.tech/core/consensus"
	"go.sia.tech/core/types"
	"pgregory.net/rapid"
	"verif/harness/ref"
	"verif/harness/stats"
)

// The two exported helpers a prover uses to build "the proof of the leaf chosen by the chain-derived challenge":
// State.StorageProofLeafIndex and State.StorageProofLeafHash. Validation calls them too, so the chain units reach them
// with the file sizes a simulated chain carries (and a few huge virtual files); here they are evaluated directly over the
// whole range of file sizes (leaf counts up to 2^58, every residue of the size modulo 64) and for short last leaves, which
// only a direct caller can pass, against the reference definitions (ref.ChallengeIndex on big integers, ref.LeafHash).

type HelperCase struct {
	Filesize uint64               `json:"filesize"`
	Window   types.BlockID        `json:"window"`
	Contract types.FileContractID `json:"contract"`
	Leaf     []byte               `json:"leaf"`
}

func drawHelper(t *rapid.T) HelperCase {
	var c HelperCase
	switch rapid.IntRange(0, 5).Draw(t, "sizeKind") {
	case 0:
		c.Filesize = uint64(rapid.IntRange(0, 130).Draw(t, "size"))
	case 1:
		c.Filesize = (uint64(1) << uint(rapid.IntRange(6, 63).Draw(t, "bit"))) + uint64(rapid.IntRange(-65, 65).Draw(t, "off"))
	case 2:
		c.Filesize = ^uint64(0) - uint64(rapid.IntRange(0, 130).Draw(t, "fromTop"))
	case 3:
		c.Filesize = 64*uint64(rapid.SampledFrom([]int{1, 2, 3, 5, 7, 255, 256, 257, 65535, 65536, 65537}).Draw(t, "leaves")) - uint64(rapid.IntRange(0, 63).Draw(t, "short"))
	default:
		c.Filesize = rapid.Uint64().Draw(t, "size")
	}
	copy(c.Window[:], rapid.SliceOfN(rapid.Byte(), 32, 32).Draw(t, "window"))
	copy(c.Contract[:], rapid.SliceOfN(rapid.Byte(), 32, 32).Draw(t, "contract"))
	if rapid.IntRange(0, 3).Draw(t, "seedEdge") == 0 {
		// identifiers that make the challenge seed's words extreme are not constructible (it is a hash); extreme
		// identifiers themselves are
		for i := range c.Window {
			c.Window[i] = 0xFF
		}
	}
	c.Leaf = rapid.SliceOfN(rapid.Byte(), 0, 64).Draw(t, "leaf")
	return c
}

func checkHelper(c HelperCase) error {
	rec := stats.G()
	var cs consensus.State
	got, want := cs.StorageProofLeafIndex(c.Filesize, c.Window, c.Contract), ref.ChallengeIndex(c.Filesize, c.Window, c.Contract)
	if got != want {
		return stats.Failf("C07/helper/leaf-index", "StorageProofLeafIndex(filesize %d, window %v, contract %v) = %d, the challenge definition gives %d (%d leaves)", c.Filesize, c.Window, c.Contract, got, want, ref.NumLeaves64(c.Filesize))
	}
	if n := ref.NumLeaves64(c.Filesize); n > 0 && got >= n {
		return stats.Failf("C07/helper/leaf-index", "StorageProofLeafIndex = %d for a file of %d leaves", got, n)
	}
	var padded [64]byte
	copy(padded[:], c.Leaf)
	keep := append([]byte(nil), c.Leaf...)
	h := cs.StorageProofLeafHash(c.Leaf)
	if h != types.Hash256(ref.LeafHash(padded[:])) {
		return stats.Failf("C07/helper/leaf-hash", "StorageProofLeafHash of a %d-byte leaf is not the leaf hash of the leaf extended with zeros", len(c.Leaf))
	}
	if string(keep) != string(c.Leaf) {
		return stats.Failf("C07/helper/leaf-hash", "StorageProofLeafHash modified the leaf it was given")
	}
	nt := ref.NumLeaves64(c.Filesize) > 1<<32 || len(c.Leaf) < 64
	rec.Case(stats.FP("helper", c.Filesize, c.Window[:], c.Contract[:], c.Leaf), nt, "helper", map[bool]string{true: "helper:leaves>2^32", false: "helper:leaves<=2^32"}[ref.NumLeaves64(c.Filesize) > 1<<32])
	if rec.WantSample() {
		rec.Sample(nt, map[string]any{"filesize": c.Filesize, "index": got, "leafLen": len(c.Leaf)})
	}
	return nil
}

func TestLeafHelpers(t *testing.T)       { stats.Prop(t, drawHelper, checkHelper) }
func TestReplayLeafHelpers(t *testing.T) { stats.Replay(t, "TestLeafHelpers", checkHelper) }
