// C07 — Contracts pay out exactly once, totals fixed; storage proofs sound and complete.
//
// Domain: contract-heavy simulator chains: v1 and v2 contracts over files of 0, 1..63, 64k,
// partial-last-leaf, 2^k and 2^k+-1 leaves; revision sequences; every resolution kind at
// every legal height; the three historical v1 leaf eras (Tax / StorageProof fork heights
// stretched) and v2; forced same-block combinations.
// Oracle: completeness — every honest proof built from the real data by the harness's own
// RFC 6962 prover is accepted (the block is applied); exact payouts — the diffs of every
// block equal the ledger's expectation: valid outputs of the latest accepted revision on a
// proof, missed outputs on expiry, v2 renter/host (missed host value on expiration, final
// outputs + new contract on renewal), all with maturity = height + delay, each contract
// resolved at most once (client store refuses otherwise); soundness — adversary operators
// (harness/sim/adv_contract.go) derive unsound proofs and rule-breaking revisions /
// renewals, honestly signed, which must be rejected.
package c07

import (
	"fmt"
	"testing"

	"go.sia.tech/core/consensus"
	"go.sia.tech/core/types"
	"pgregory.net/rapid"
	"verif/harness/sim"
	"verif/harness/stats"
)

func TestMain(m *testing.M) { stats.Main(m) }

func draw(t *rapid.T) sim.ChainCase {
	g := sim.GenChain(t, sim.GenOpts{
		Net: sim.NetOpts{MaxForkHeight: rapid.SampledFrom([]int{8, 16, 30}).Draw(t, "forkSpan"), V2Only: rapid.IntRange(0, 4).Draw(t, "v2only") == 0,
			ProofEraSpread: rapid.SampledFrom([]int{0, 6, 12}).Draw(t, "eraSpread")},
		MinBlocks: 10, MaxBlocks: 40, Reorgs: rapid.Bool().Draw(t, "reorgs"), MaxReorg: 3, Profile: sim.Profile{Contracts: 4, MaxTxns: 6},
		HugeFiles: true, // some contracts commit to virtual files of up to 2^64-1 bytes (sparse reference tree)
		OnBlock: func(g *sim.Gen, b *sim.Builder) {
			switch rapid.IntRange(0, 11).Draw(g.T, "scenario") {
			case 0:
				b.V1ReviseThenProve()
			case 1:
				if b.V1Form() {
					b.V1ReviseCreatedInBlock()
				}
			case 2:
				b.V1FormThenProve()
			case 4: // the same contract revised twice in one block (v1 and v2; v2 possibly after a key rotation), or revised and renewed
				b.V1Revise()
				b.V1ReviseAgainInBlock()
				b.AfterV1(func() {
					if b.V2Revise() {
						if rapid.Bool().Draw(g.T, "againOrRenew") {
							b.V2ReviseAgainInBlock()
						} else {
							b.V2RenewRevisedInBlock()
						}
					}
				})
			case 5: // several v2 contracts for one period (their proofs share a chain index element) ...
				b.AfterV1(func() { b.V2FormBatch() })
			case 6, 7: // ... and contracts proven together in one transaction when several are provable
				b.V1Prove()
				b.AfterV1(func() { b.V2Resolve() })
			case 3: // several revisions of different contracts in one block
				b.V1Revise()
				b.V1Revise()
				b.AfterV1(func() {
					b.V2Revise()
					b.V2Revise()
				})
			}
		},
		BeforeApply: func(g *sim.Gen, honest types.Block, bs consensus.V1BlockSupplement) {
			g.NewAdv(honest).ContractProbes()
		},
	})
	c, err := g.Case.Normalize()
	if err != nil {
		panic(err)
	}
	return c
}

func check(c sim.ChainCase) error {
	rec := stats.G()
	revised := map[types.FileContractID]bool{}
	ntResolutions, resolutions, probes := 0, 0, 0
	labels := map[string]int{}
	hooks := sim.Hooks{
		AfterApply: func(ch *sim.Chain, st *sim.Step, parent consensus.State, au consensus.ApplyUpdate) error {
			if st.Expect == nil {
				return fmt.Errorf("harness: apply step without expectation")
			}
			if err := st.Expect.Compare(au); err != nil {
				return stats.Failf("C07/payout", "%v", err)
			}
			// accepted revisions keep the totals (checked on the diffs, independently of validation)
			for _, d := range au.FileContractElementDiffs() {
				if d.Revision != nil {
					var a, b, ma, mb types.Currency
					for _, o := range d.FileContractElement.FileContract.ValidProofOutputs {
						a = a.Add(o.Value)
					}
					for _, o := range d.Revision.ValidProofOutputs {
						b = b.Add(o.Value)
					}
					for _, o := range d.FileContractElement.FileContract.MissedProofOutputs {
						ma = ma.Add(o.Value)
					}
					for _, o := range d.Revision.MissedProofOutputs {
						mb = mb.Add(o.Value)
					}
					if a != b || ma != mb || d.Revision.Payout != d.FileContractElement.FileContract.Payout {
						return stats.Failf("C07/revision-totals", "accepted v1 revision of %v changes totals: valid %d->%d missed %d->%d payout %d->%d", d.FileContractElement.ID, a, b, ma, mb, d.FileContractElement.FileContract.Payout, d.Revision.Payout)
					}
					if d.Revision.RevisionNumber <= d.FileContractElement.FileContract.RevisionNumber {
						return stats.Failf("C07/revision-number", "accepted v1 revision of %v does not raise the revision number", d.FileContractElement.ID)
					}
				}
			}
			for _, d := range au.V2FileContractElementDiffs() {
				if d.Revision != nil {
					o, r := d.V2FileContractElement.V2FileContract, *d.Revision
					if o.RenterOutput.Value.Add(o.HostOutput.Value) != r.RenterOutput.Value.Add(r.HostOutput.Value) {
						return stats.Failf("C07/revision-totals", "accepted v2 revision of %v changes the total value", d.V2FileContractElement.ID)
					}
					if r.RevisionNumber <= o.RevisionNumber || r.MissedHostValue.Cmp(o.MissedHostValue) > 0 || r.TotalCollateral != o.TotalCollateral {
						return stats.Failf("C07/revision-rules", "accepted v2 revision of %v: revision number %d->%d, missed host value %d->%d, total collateral %d->%d", d.V2FileContractElement.ID,
							o.RevisionNumber, r.RevisionNumber, o.MissedHostValue, r.MissedHostValue, o.TotalCollateral, r.TotalCollateral)
					}
				}
			}
			for _, cx := range st.Expect.Contracts {
				if cx.Revised {
					revised[cx.ID] = true
				}
				if cx.Resolved != "" {
					resolutions++
					if revised[cx.ID] {
						ntResolutions++
					}
				}
			}
			for _, l := range st.Expect.Labels {
				labels[l]++
				if l == "v1-proof-non-pow2-leaves" || l == "v2-proof-non-pow2-leaves" {
					ntResolutions++
				}
			}
			return nil
		},
		Probe: func(ch *sim.Chain, st *sim.Step) error {
			err := consensus.ValidateBlock(ch.Tip(), *st.Block, *st.Supp)
			if err == nil {
				return stats.Failf("C07/"+st.Label, "block with an unsound proof / rule-breaking revision (%s) was ACCEPTED at height %d", st.Label, ch.Height()+1)
			}
			probes++
			id := st.Block.ID()
			ls := []string{"op:" + st.Label}
			if st.Info["leaves"] != "" {
				ls = append(ls, "probe-leaves:"+st.Info["leaves"])
			}
			rec.Case(stats.FP(st.Label, id[:]), true, ls...)
			if rec.WantSample() {
				rec.Sample(true, map[string]any{"operator": st.Label, "height": ch.Height() + 1, "verdict": err.Error()})
			}
			return nil
		},
	}
	ch, err := sim.Replay(c, hooks)
	if err != nil {
		if _, ok := err.(*stats.Failure); ok {
			return err
		}
		return stats.Failf("C07/replay", "%v", err)
	}
	var ls []string
	for l, k := range labels {
		if len(l) > 2 && (l[:3] == "v1-" || l[:3] == "v2-") {
			ls = append(ls, l)
			_ = k
		}
	}
	tip := ch.Tip().Index.ID
	rec.Case(stats.FP(tip[:], len(c.Steps)), ntResolutions > 0, ls...)
	rec.Extra("resolutions", uint64(resolutions))
	rec.Extra("resolutions_after_revision_or_non_pow2_proof", uint64(ntResolutions))
	rec.Extra("soundness_probes", uint64(probes))
	return nil
}

func TestContracts(t *testing.T)       { stats.Prop(t, draw, check) }
func TestReplayContracts(t *testing.T) { stats.Replay(t, "TestContracts", check) }
func TestRegress(t *testing.T)         { stats.Regress(t, "TestContracts", check) }
