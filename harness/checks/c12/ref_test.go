package c12

// Independent recomputation of signature hashes and of the v2 block commitment from the
// reference layout of verif/harness/gen (hand-written encoder + x/crypto BLAKE2b), and
// hand-written parsers of three fixed layouts that are used to build *byte-identical*
// payloads of different signature purposes.  Nothing here calls an EncodeTo method, a
// hashing helper, an ID method or a SigHash method of the library.

import (
	"encoding/binary"

	"go.sia.tech/core/consensus"
	"go.sia.tech/core/types"
	"verif/harness/gen"
)

// refPrefix is the hardfork replay prefix of a state at the given height: nothing before the
// ASIC fork, then one byte 0 / 1 / 2 from the ASIC / Foundation / v2-allow fork on (the latest
// fork that has been reached wins).
func refPrefix(n *consensus.Network, height uint64) []byte {
	var p []byte
	if height >= n.HardforkASIC.Height {
		p = []byte{0}
	}
	if height >= n.HardforkFoundation.Height {
		p = []byte{1}
	}
	if height >= n.HardforkV2.AllowHeight {
		p = []byte{2}
	}
	return p
}

// era names the prefix (for labels and grouping): -1 none, 0, 1, 2.
func era(n *consensus.Network, height uint64) int {
	p := refPrefix(n, height)
	if p == nil {
		return -1
	}
	return int(p[0])
}

// refWholeSigHash: every field list with its count, every siacoin / siafund input preceded by
// the replay prefix, then signature parent ID, key index, timelock and the covered signatures.
func refWholeSigHash(prefix []byte, t types.Transaction, parentID types.Hash256, pkIndex, timelock uint64, coveredSigs []uint64) types.Hash256 {
	var w gen.W
	w.U64(uint64(len(t.SiacoinInputs)))
	for _, in := range t.SiacoinInputs {
		w.Raw(prefix)
		w.SiacoinInput(in)
	}
	w.U64(uint64(len(t.SiacoinOutputs)))
	for _, o := range t.SiacoinOutputs {
		w.SiacoinOutputV1(o)
	}
	w.U64(uint64(len(t.FileContracts)))
	for _, fc := range t.FileContracts {
		w.FileContract(fc)
	}
	w.U64(uint64(len(t.FileContractRevisions)))
	for _, r := range t.FileContractRevisions {
		w.FileContractRevision(r)
	}
	w.U64(uint64(len(t.StorageProofs)))
	for _, sp := range t.StorageProofs {
		w.StorageProof(sp)
	}
	w.U64(uint64(len(t.SiafundInputs)))
	for _, in := range t.SiafundInputs {
		w.Raw(prefix)
		w.SiafundInput(in)
	}
	w.U64(uint64(len(t.SiafundOutputs)))
	for _, o := range t.SiafundOutputs {
		w.SiafundOutputV1(o)
	}
	w.U64(uint64(len(t.MinerFees)))
	for _, f := range t.MinerFees {
		w.CurrencyV1(f)
	}
	w.U64(uint64(len(t.ArbitraryData)))
	for _, a := range t.ArbitraryData {
		w.Bytes(a)
	}
	w.Raw(parentID[:])
	w.U64(pkIndex)
	w.U64(timelock)
	for _, i := range coveredSigs {
		w.TransactionSignature(t.Signatures[i])
	}
	return gen.RefH(w.B)
}

// refPartialSigHash: only the listed elements, in field order, without counts.
func refPartialSigHash(prefix []byte, t types.Transaction, cf types.CoveredFields) types.Hash256 {
	var w gen.W
	for _, i := range cf.SiacoinInputs {
		w.Raw(prefix)
		w.SiacoinInput(t.SiacoinInputs[i])
	}
	for _, i := range cf.SiacoinOutputs {
		w.SiacoinOutputV1(t.SiacoinOutputs[i])
	}
	for _, i := range cf.FileContracts {
		w.FileContract(t.FileContracts[i])
	}
	for _, i := range cf.FileContractRevisions {
		w.FileContractRevision(t.FileContractRevisions[i])
	}
	for _, i := range cf.StorageProofs {
		w.StorageProof(t.StorageProofs[i])
	}
	for _, i := range cf.SiafundInputs {
		w.Raw(prefix)
		w.SiafundInput(t.SiafundInputs[i])
	}
	for _, i := range cf.SiafundOutputs {
		w.SiafundOutputV1(t.SiafundOutputs[i])
	}
	for _, i := range cf.MinerFees {
		w.CurrencyV1(t.MinerFees[i])
	}
	for _, i := range cf.ArbitraryData {
		w.Bytes(t.ArbitraryData[i])
	}
	for _, i := range cf.Signatures {
		w.TransactionSignature(t.Signatures[i])
	}
	return gen.RefH(w.B)
}

// v2 signature hashes: BLAKE2b("sia/sig/<purpose>|" ‖ 0x02 ‖ payload with every signature zeroed).
const v2Prefix = 2

func v2SigHash(purpose string, payload []byte) types.Hash256 {
	var w gen.W
	w.Raw(gen.RefDist("sig/" + purpose))
	w.U8(v2Prefix)
	w.Raw(payload)
	return gen.RefH(w.B)
}

func inputPayload(t types.V2Transaction) []byte {
	var w gen.W
	w.V2TransactionSemantics(t)
	return w.B
}

func contractPayload(fc types.V2FileContract) []byte {
	fc.RenterSignature, fc.HostSignature = types.Signature{}, types.Signature{}
	var w gen.W
	w.V2FileContract(fc)
	return w.B
}

func renewalPayload(r types.V2FileContractRenewal) []byte {
	r.RenterSignature, r.HostSignature = types.Signature{}, types.Signature{}
	r.NewContract.RenterSignature, r.NewContract.HostSignature = types.Signature{}, types.Signature{}
	var w gen.W
	w.V2FileContractRenewal(r)
	return w.B
}

func attestationPayload(a types.Attestation) []byte {
	a.Signature = types.Signature{}
	var w gen.W
	w.Attestation(a)
	return w.B
}

func refInputSigHash(t types.V2Transaction) types.Hash256 { return v2SigHash("input", inputPayload(t)) }
func refContractSigHash(fc types.V2FileContract) types.Hash256 {
	return v2SigHash("filecontract", contractPayload(fc))
}
func refRenewalSigHash(r types.V2FileContractRenewal) types.Hash256 {
	return v2SigHash("filecontractrenewal", renewalPayload(r))
}
func refAttestationSigHash(a types.Attestation) types.Hash256 {
	return v2SigHash("attestation", attestationPayload(a))
}

// refCommitment: Merkle root over
//
//	leaf 0   = BLAKE2b(0x00 ‖ "sia/commitment|" ‖ 0x02 ‖ BLAKE2b(encoding of the parent state) ‖ miner address)
//	leaf 1.. = BLAKE2b(0x00 ‖ full encoding) of the v1 transactions, then of the v2 transactions.
func refCommitment(s consensus.State, minerAddr types.Address, txns []types.Transaction, v2txns []types.V2Transaction) types.Hash256 {
	enc, ok := gen.RefEncode(s)
	if !ok {
		panic("reference encoder does not know consensus.State")
	}
	sh := gen.RefH(enc)
	var w gen.W
	w.U8(0)
	w.Raw(gen.RefDist("commitment"))
	w.U8(v2Prefix)
	w.Raw(sh[:])
	w.Raw(minerAddr[:])
	leaves := []types.Hash256{gen.RefH(w.B)}
	for _, t := range txns {
		leaves = append(leaves, gen.RefTxnLeafHash(t))
	}
	for _, t := range v2txns {
		leaves = append(leaves, gen.RefV2TxnLeafHash(t))
	}
	return gen.RefMTH(leaves)
}

// ---- hand-written parsers of the fixed layouts (inverse of the layout text in gen/refenc.go)

type rd struct {
	b  []byte
	ok bool
}

func (r *rd) take(n int) []byte {
	if !r.ok || n < 0 || len(r.b) < n {
		r.ok = false
		return make([]byte, max(n, 0))
	}
	x := r.b[:n]
	r.b = r.b[n:]
	return x
}
func (r *rd) u64() uint64 { return binary.LittleEndian.Uint64(r.take(8)) }
func (r *rd) cur() types.Currency {
	lo := r.u64()
	hi := r.u64()
	return types.NewCurrency(lo, hi)
}
func (r *rd) h32() (h [32]byte) { copy(h[:], r.take(32)); return }
func (r *rd) sig() (s [64]byte) { copy(s[:], r.take(64)); return }
func (r *rd) out() types.SiacoinOutput {
	v := r.cur()
	return types.SiacoinOutput{Value: v, Address: r.h32()}
}

func (r *rd) contract() (fc types.V2FileContract) {
	fc.Capacity = r.u64()
	fc.Filesize = r.u64()
	fc.FileMerkleRoot = r.h32()
	fc.ProofHeight = r.u64()
	fc.ExpirationHeight = r.u64()
	fc.RenterOutput = r.out()
	fc.HostOutput = r.out()
	fc.MissedHostValue = r.cur()
	fc.TotalCollateral = r.cur()
	fc.RenterPublicKey = r.h32()
	fc.HostPublicKey = r.h32()
	fc.RevisionNumber = r.u64()
	fc.RenterSignature = r.sig()
	fc.HostSignature = r.sig()
	return
}

const (
	contractLen = 8 + 8 + 32 + 8 + 8 + 48 + 48 + 16 + 16 + 32 + 32 + 8 + 64 + 64 // 392
	renewalLen  = 48 + 48 + 16 + 16 + contractLen + 64 + 64                      // 648
)

// parseContract reads the 392-byte v2 contract layout.
func parseContract(b []byte) (types.V2FileContract, bool) {
	r := rd{b, true}
	fc := r.contract()
	return fc, r.ok && len(r.b) == 0
}

// parseRenewal reads the 648-byte renewal layout.
func parseRenewal(b []byte) (rn types.V2FileContractRenewal, ok bool) {
	r := rd{b, true}
	rn.FinalRenterOutput = r.out()
	rn.FinalHostOutput = r.out()
	rn.RenterRollover = r.cur()
	rn.HostRollover = r.cur()
	rn.NewContract = r.contract()
	rn.RenterSignature = r.sig()
	rn.HostSignature = r.sig()
	return rn, r.ok && len(r.b) == 0
}

// parseAttestation reads public key, length-prefixed key, length-prefixed value, signature.
func parseAttestation(b []byte) (a types.Attestation, ok bool) {
	r := rd{b, true}
	a.PublicKey = r.h32()
	kl := r.u64()
	if kl > uint64(len(r.b)) {
		return a, false
	}
	a.Key = string(r.take(int(kl)))
	vl := r.u64()
	if vl > uint64(len(r.b)) {
		return a, false
	}
	a.Value = append([]byte(nil), r.take(int(vl))...)
	a.Signature = r.sig()
	return a, r.ok && len(r.b) == 0
}
