package c12

import (
	"testing"

	"verif/harness/stats"
)

// IDs, sighashes and commitments computed by several goroutines at once (each on its own generated value; the library
// hashes through pooled hashers) equal the ones computed alone: see stats.PropConc.
func TestConcurrentTxn(t *testing.T) { stats.PropConc(t, drawTxn, checkTxnCase, 6, 6) }
func TestConcurrentSig(t *testing.T) { stats.PropConc(t, drawSig, checkSig, 6, 6) }

func TestReplayConcurrentTxn(t *testing.T) { stats.Replay(t, "TestConcurrentTxn", checkTxnCase) }
func TestReplayConcurrentSig(t *testing.T) { stats.Replay(t, "TestConcurrentSig", checkSig) }
