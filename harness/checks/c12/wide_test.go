package c12

import (
	"encoding/binary"
	"fmt"
	"testing"

	"go.sia.tech/core/consensus"
	"go.sia.tech/core/types"
	"pgregory.net/rapid"
	"verif/harness/stats"
)

// Busy blocks. The generated transaction lists of TestCommitment are a few elements long; a block within the weight limit
// holds thousands of small transactions. The commitment must bind every one of them whatever their number: lists whose
// lengths sit around every power of two up to 2048 (and are not multiples of 2, 4, 8), compared with the reference
// recomputation, and with every position near both ends and a sample in between replaced by another transaction.

type WideCase struct {
	Seed uint64 `json:"seed"`
	V1   int    `json:"v1"`
	V2   int    `json:"v2"`
}

func drawWide(t *rapid.T) WideCase {
	n := rapid.SampledFrom([]int{63, 64, 65, 127, 129, 255, 256, 257, 258, 259, 301, 511, 513, 1022, 1023, 1025, 2047, 2049}).Draw(t, "n")
	v1 := 0
	switch rapid.IntRange(0, 2).Draw(t, "split") {
	case 0:
		v1 = n
	case 1:
		v1 = rapid.IntRange(0, n).Draw(t, "v1")
	}
	return WideCase{Seed: rapid.Uint64().Draw(t, "seed"), V1: v1, V2: n - v1}
}

func wideTxns(c WideCase) ([]types.Transaction, []types.V2Transaction) {
	v1 := make([]types.Transaction, c.V1)
	for i := range v1 {
		d := make([]byte, 16)
		binary.LittleEndian.PutUint64(d, c.Seed)
		binary.LittleEndian.PutUint64(d[8:], uint64(i))
		v1[i] = types.Transaction{ArbitraryData: [][]byte{d}}
	}
	v2 := make([]types.V2Transaction, c.V2)
	for i := range v2 {
		d := make([]byte, 16)
		binary.LittleEndian.PutUint64(d, ^c.Seed)
		binary.LittleEndian.PutUint64(d[8:], uint64(i))
		v2[i] = types.V2Transaction{ArbitraryData: d}
	}
	return v1, v2
}

func checkWide(c WideCase) error {
	rec := stats.G()
	if c.V1 < 0 || c.V2 < 0 || c.V1+c.V2 > 5000 {
		return stats.Failf("", "harness: case out of range")
	}
	s := consensus.State{Network: &consensus.Network{}, Index: types.ChainIndex{Height: c.Seed % 1000}}
	miner := types.Address{1, 2, 3}
	v1, v2 := wideTxns(c)
	base := s.Commitment(miner, v1, v2)
	if want := refCommitment(s, miner, v1, v2); base != want && !noRef {
		return stats.Failf("C12/commitment/layout-wide", "State.Commitment over %d v1 + %d v2 transactions = %v, reference recomputation gives %v", c.V1, c.V2, base, want)
	}
	if again := s.Commitment(miner, v1, v2); again != base {
		return stats.Failf("C12/commitment/layout-wide", "two evaluations of State.Commitment over %d + %d transactions differ", c.V1, c.V2)
	}
	n := c.V1 + c.V2
	seed := c.Seed
	var positions []int
	for i := 0; i < 9 && i < n; i++ {
		positions = append(positions, i, n-1-i)
	}
	for i := 0; i < 12 && n > 0; i++ {
		positions = append(positions, int(splitmix(&seed)%uint64(n)))
	}
	for _, p := range positions {
		var got types.Hash256
		if p < c.V1 {
			m := append([]types.Transaction(nil), v1...)
			m[p] = types.Transaction{ArbitraryData: [][]byte{[]byte(fmt.Sprintf("another transaction %d", p))}}
			got = s.Commitment(miner, m, v2)
		} else {
			m := append([]types.V2Transaction(nil), v2...)
			m[p-c.V1] = types.V2Transaction{ArbitraryData: []byte(fmt.Sprintf("another transaction %d", p))}
			got = s.Commitment(miner, v1, m)
		}
		if got == base {
			return stats.Failf("C12/commitment/txn-unbound-wide", "the v2 commitment over %d v1 + %d v2 transactions does not change when transaction %d is replaced by another one", c.V1, c.V2, p)
		}
	}
	// the same for the ID of a v1 block (Merkle root over miner payouts and transactions)
	if c.V2 == 0 && n > 0 {
		blk := types.Block{ParentID: types.BlockID{7}, MinerPayouts: []types.SiacoinOutput{{Value: types.Siacoins(1), Address: miner}}, Transactions: v1}
		id := blk.ID()
		for _, p := range positions {
			m := append([]types.Transaction(nil), v1...)
			m[p] = types.Transaction{ArbitraryData: [][]byte{[]byte(fmt.Sprintf("another transaction %d", p))}}
			b2 := blk
			b2.Transactions = m
			if b2.ID() == id {
				return stats.Failf("C12/block/v1-content-unbound-wide", "the ID of a v1 block with %d transactions does not change when transaction %d is replaced by another one", n, p)
			}
		}
		b2 := blk
		b2.Transactions = v1[:n-1]
		if b2.ID() == id {
			return stats.Failf("C12/block/v1-content-unbound-wide", "the ID of a v1 block with %d transactions does not change when the last transaction is dropped", n)
		}
	}
	// one transaction fewer or more is another block
	if n > 0 {
		var got types.Hash256
		if c.V2 > 0 {
			got = s.Commitment(miner, v1, v2[:c.V2-1])
		} else {
			got = s.Commitment(miner, v1[:c.V1-1], v2)
		}
		if got == base {
			return stats.Failf("C12/commitment/txn-unbound-wide", "the v2 commitment over %d + %d transactions does not change when the last transaction is dropped", c.V1, c.V2)
		}
	}
	rec.Case(stats.FP("wide", c.Seed, c.V1, c.V2), n >= 255, "commitment:wide", fmt.Sprintf("commitment:wide-n:%d", n))
	return nil
}

func TestCommitmentWide(t *testing.T)       { stats.Prop(t, drawWide, checkWide) }
func TestReplayCommitmentWide(t *testing.T) { stats.Replay(t, "TestCommitmentWide", checkWide) }
