// C12 — IDs and sighashes bind exactly the effect-bearing content; block IDs bind all.
//
// Units
//
//	TestTxnFields   gen.Value v1 / v2 transactions x every leaf path (and adjacent swaps): a minimal
//	                mutation of a MUST-CHANGE field changes the ID and every derived output / contract /
//	                attestation ID; a mutation of a MUST-NOT-CHANGE field (v1 signatures, v2 satisfied
//	                policy, parent element contents other than the ID, contract / renewal signatures, the
//	                chain-index Merkle proof of a storage proof) leaves all of them equal while FullHash
//	                differs; arguable fields are counted, never asserted. IDs also equal the reference
//	                recomputation and the derived-ID family is pairwise distinct across (kind, index).
//	TestSigHash     the six State.*SigHash functions equal the recomputation from the reference layout
//	                in every replay-prefix era; v1 hashes that cover an input differ across every pair of
//	                eras; v2 hashes of different purposes differ even on byte-identical payloads
//	                (constructed: contract/attestation, renewal/attestation, input/attestation,
//	                input/contract, input/renewal).
//	TestBlockGen    gen.Value blocks: v1 ID changes under every transmitted content mutation; block ID
//	                equals the reference; derived family (miner / foundation outputs) distinct.
//	TestCommitment  State.Commitment equals the reference and changes with every encoded State field,
//	                the miner address and every transmitted transaction field.
//	TestChain       simulator chains (valid signed blocks): every block's ID / v2 commitment / signature
//	                hashes equal the reference in the real parent state; real transactions go through the
//	                field classification; for sampled content mutations with the header kept, the ID
//	                differs or ValidateBlock rejects (v2 blocks keep their ID: ValidateBlock must reject).
//
// Sensitivity (tools/with_mutant.sh -e <sed> <file> -- ./run C12 quick; seconds = wall of the whole run
// including the rebuild of the library, on a machine shared with other builders). "ref on" is the
// registered configuration; "ref off" (C12_NOREF=1) disables every comparison with the reference
// layout, to show what the field-set / distinctness / era / purpose / block oracles find on their own.
//
//	                                                                   ref on (first key)                ref off (first key)
//	M01 V2TransactionSemantics drops MinerFee ........................ killed 52 s v2/id-layout           killed 44 s v2/id-unbound/MinerFee.Lo
//	M02 V2TransactionSemantics drops NewFoundationAddress ............ killed 48 s v2/id-layout           killed 50 s v2/id-unbound/NewFoundationAddress#nil
//	M03 v1 Transaction.ID hashes the signatures too .................. killed 50 s v1/id-layout           killed 50 s v1/id-malleable/Signatures#len
//	M04 MinerOutputID ignores the index .............................. killed 44 s derived-id-collision/MinerOutputID~MinerOutputID
//	M05 attestation sighash uses the contract distinguisher .......... killed 58 s sighash/purpose/filecontract~attestation (+Attestation-layout)   killed 23 s same
//	M06 WholeSigHash: no replay prefix for siafund inputs ............ killed 57 s sighash/Whole-layout    killed 48 s sighash/Whole-era-replay
//	M07 FileContractID uses the siacoin-output specifier ............. killed 75 s v1/derived-layout      killed 44 s derived-id-collision/SiacoinOutputID~FileContractID
//	M08 Commitment ignores the miner address ......................... killed 77 s commitment/layout      killed 26 s commitment/miner-unbound + block/v2-content-unbound/MinerPayouts.N.Address (sim)
//	M09 blockMerkleRoot skips miner payouts .......................... killed 79 s block/v1-id-unbound/MinerPayouts#len (+id-layout)
//	M10 semantics keeps the ProofIndex Merkle proof .................. killed 83 s v2/id-malleable/...ProofIndex.StateElement.MerkleProof#len
//	M11 semantics keeps revision signatures .......................... killed 77 s v2/id-layout, v2/id-malleable
//	M12 semantics encodes the whole siacoin parent element ........... killed 63 s v2/id-layout           killed 40 s v2/id-malleable/SiacoinInputs.N.Parent.StateElement.LeafIndex
//	M13 Foundation-era replay prefix equals the ASIC-era prefix ...... killed 54 s sighash/Whole-layout    killed 38 s sighash/Whole-era-replay
//	M14 RenewalSigHash keeps the renewal signatures .................. killed 48 s sighash/Renewal-layout  killed 47 s sighash/Renewal-covers-signature
//	M15 ValidateBlock does not compare the v2 commitment ............. killed 57 s block/v2-content-unbound/... (sim chains: mutated v2 block accepted under its old ID)
//	M16 V2ClaimOutputID equals the v1 ClaimOutputID .................. killed 79 s derived-id-collision/ClaimOutputID~V2ClaimOutputID
//	M17 MissedOutputID equals ValidOutputID .......................... killed 56 s derived-id-collision/ValidOutputID~MissedOutputID
//	M18 semantics drops the siafund claim address (the fixed defect) . killed 44 s v2/id-layout           killed 50 s v2/id-unbound/SiafundInputs.N.ClaimAddress
//	M19 PartialSigHash: no replay prefix for siacoin inputs .......... killed 47 s sighash/Partial-layout  killed 44 s sighash/Partial-era-replay
//	M20 State encoding drops the attestation count ................... killed 58 s commitment/layout      killed 44 s commitment/state-unbound/Attestations
//	M21 Commitment skips the v1 transactions ......................... killed 44 s commitment/txn-unbound/#len + block/v2-content-unbound/Transactions#len
//	M22 AttestationID uses the contract distinguisher ................ killed 41 s v2/derived-layout      killed 65 s derived-id-collision/V2FileContractID~AttestationID
//	M23 InputSigHash hashes the full transaction ..................... (ref off) killed 33 s sighash/Input-covers-signature
//	M24 ContractSigHash keeps the contract signatures ................ (ref off) killed 62 s sighash/Contract-covers-signature
//	M25 V2HostOutputID equals V2RenterOutputID ....................... (ref off) killed 60 s derived-id-collision/V2RenterOutputID~V2HostOutputID
//	M26 semantics drops the revision parent ID ....................... (ref off) killed 52 s v2/id-unbound/FileContractRevisions.N.Parent.ID
//	M27 semantics keeps formation contract signatures ................ (ref off) killed 46 s v2/id-malleable/FileContracts.N.RenterSignature
//	C00 control: semantically empty change of types/encoding.go ...... survived (exit 0), as it must
//
// No mutant survived. Saved cases of the mutant runs replay green on the unchanged tree and red on the mutant.
package c12

import (
	"bytes"
	"encoding/binary"
	"encoding/hex"
	"encoding/json"
	"errors"
	"fmt"
	"reflect"
	"sort"
	"strings"
	"testing"
	"time"

	"go.sia.tech/core/consensus"
	"go.sia.tech/core/types"
	"pgregory.net/rapid"
	"verif/harness/gen"
	"verif/harness/sim"
	"verif/harness/stats"
)

func TestMain(m *testing.M) { stats.Main(m) }

// noRef switches every comparison with the reference layout off. It is used only for the
// sensitivity runs (C12_NOREF=1 with_mutant.sh ...), to show what the field-set / distinctness /
// era / purpose / block oracles detect on their own; the registered runs never set it.
var noRef = stats.EnvInt("C12_NOREF", 0) == 1

// keyShape is a path shape usable inside a failure key (no brackets).
func keyShape(s string) string { return strings.ReplaceAll(s, "[]", ".N") }

// ------------------------------------------------------------------ plumbing

func splitmix(x *uint64) uint64 {
	*x += 0x9E3779B97F4A7C15
	z := *x
	z = (z ^ (z >> 30)) * 0xBF58476D1CE4E5B9
	z = (z ^ (z >> 27)) * 0x94D049BB133111EB
	return z ^ (z >> 31)
}

// Val carries a generated value: live while the case comes straight from draw, as a
// library-independent tree (gen.DumpJSON) in a replay file.
type Val struct {
	raw  json.RawMessage
	live reflect.Value
}

func live(v any) Val { return Val{live: reflect.ValueOf(v)} }

func (v Val) MarshalJSON() ([]byte, error) {
	if v.raw == nil && v.live.IsValid() {
		return gen.DumpJSON(v.live), nil
	}
	if v.raw == nil {
		return []byte("null"), nil
	}
	return v.raw, nil
}

func (v *Val) UnmarshalJSON(b []byte) error {
	v.raw = append(json.RawMessage(nil), b...)
	v.live = reflect.Value{}
	return nil
}

// get returns an addressable copy of the value.
func (v Val) get(t reflect.Type) (reflect.Value, error) {
	out := reflect.New(t).Elem()
	if v.live.IsValid() {
		out.Set(v.live)
		return out, nil
	}
	l, err := gen.LoadJSON(t, v.raw)
	if err != nil {
		return out, err
	}
	out.Set(l)
	return out, nil
}

func valOf[T any](v Val) (T, error) {
	var z T
	rv, err := v.get(reflect.TypeOf(&z).Elem())
	if err != nil {
		return z, err
	}
	return rv.Interface().(T), nil
}

func clone(v reflect.Value) reflect.Value {
	m := reflect.New(v.Type()).Elem()
	m.Set(v)
	return m
}

func short(v reflect.Value) string {
	b := gen.DumpJSON(v)
	if len(b) > 3000 {
		return string(b[:3000]) + "…"
	}
	return string(b)
}

var (
	tTxn     = reflect.TypeOf(types.Transaction{})
	tV2Txn   = reflect.TypeOf(types.V2Transaction{})
	tBlock   = reflect.TypeOf(types.Block{})
	tState   = reflect.TypeOf(consensus.State{})
	tTxns    = reflect.TypeOf([]types.Transaction{})
	tV2Txns  = reflect.TypeOf([]types.V2Transaction{})
	txnEntry = gen.Lookup("types.Transaction")
	stEntry  = gen.Lookup("consensus.State")
)

// samplePaths returns all paths, or a seeded sample of max of them (original order kept).
func samplePaths(paths []gen.Path, max int, seed *uint64) []gen.Path {
	if len(paths) <= max {
		return paths
	}
	order := make([]int, len(paths))
	for i := range order {
		order[i] = i
	}
	for i := 0; i < max; i++ {
		j := i + int(splitmix(seed)%uint64(len(order)-i))
		order[i], order[j] = order[j], order[i]
	}
	order = order[:max]
	sort.Ints(order)
	out := make([]gen.Path, max)
	for i, k := range order {
		out[i] = paths[k]
	}
	return out
}

// labelShape is the path shape with witness sub-trees folded (keeps the label set small).
func labelShape(p gen.Path) string {
	for i, s := range p {
		switch s.Field {
		case "SatisfiedPolicy", "UnlockConditions", "MerkleProof", "CoveredFields":
			return p[:i+1].Shape() + ".*"
		}
	}
	return p.Shape()
}

// ------------------------------------------------------------------ the two field sets

type class int

const (
	clUnknown  class = iota
	clMust           // effect-bearing: ID and every derived ID must change
	clMustNot        // witness data: IDs must stay, FullHash must change
	clArguable       // in neither set: never asserted
	clSkip           // not transmitted at all (v1 revision payout)
)

func (c class) String() string {
	return [...]string{"unknown", "must-change", "must-not-change", "arguable", "not-transmitted"}[c]
}

func fld(p gen.Path, i int) string {
	if i < len(p) {
		return p[i].Field
	}
	return ""
}

func op(p gen.Path, i int) string {
	if i < len(p) {
		return p[i].Op
	}
	return ""
}

func isSig(name string) bool { return name == "RenterSignature" || name == "HostSignature" }

// classifyV1 sorts a leaf path of types.Transaction into the sets of DESIGN C12.
func classifyV1(p gen.Path) class {
	top := fld(p, 0)
	if top == "Signatures" {
		return clMustNot
	}
	if len(p) == 2 && p[1].Op == "#len" {
		return clMust // count of a top-level list
	}
	switch top {
	case "SiacoinOutputs", "FileContracts", "SiafundOutputs", "MinerFees", "ArbitraryData":
		return clMust
	case "SiacoinInputs":
		switch fld(p, 2) {
		case "ParentID":
			return clMust
		case "UnlockConditions":
			return clArguable
		}
	case "SiafundInputs":
		switch fld(p, 2) {
		case "ParentID", "ClaimAddress":
			return clMust
		case "UnlockConditions":
			return clArguable
		}
	case "FileContractRevisions":
		switch fld(p, 2) {
		case "ParentID":
			return clMust
		case "UnlockConditions":
			return clArguable
		case "FileContract":
			if fld(p, 3) == "Payout" {
				return clSkip // a revision's payout is not transmitted
			}
			return clMust
		}
	case "StorageProofs":
		switch fld(p, 2) {
		case "ParentID":
			return clMust
		case "Leaf", "Proof":
			return clArguable
		}
	}
	return clUnknown
}

func classifyParent(p gen.Path, at int) class {
	// p[at] == "Parent": everything of the parent element except its ID is witness data
	if fld(p, at+1) == "ID" {
		return clMust
	}
	return clMustNot
}

func classifyV2Contract(p gen.Path, at int) class {
	if isSig(fld(p, at)) {
		return clMustNot
	}
	return clMust
}

// classifyV2 sorts a leaf path of types.V2Transaction.
func classifyV2(p gen.Path) class {
	top := fld(p, 0)
	if len(p) == 2 && p[1].Op == "#len" {
		return clMust
	}
	switch top {
	case "SiacoinOutputs", "SiafundOutputs", "MinerFee", "ArbitraryData", "NewFoundationAddress":
		return clMust
	case "SiacoinInputs":
		switch fld(p, 2) {
		case "Parent":
			return classifyParent(p, 2)
		case "SatisfiedPolicy":
			return clMustNot
		}
	case "SiafundInputs":
		switch fld(p, 2) {
		case "Parent":
			return classifyParent(p, 2)
		case "ClaimAddress":
			return clMust
		case "SatisfiedPolicy":
			return clMustNot
		}
	case "FileContracts":
		if fld(p, 2) != "" {
			return classifyV2Contract(p, 2)
		}
	case "FileContractRevisions":
		switch fld(p, 2) {
		case "Parent":
			return classifyParent(p, 2)
		case "Revision":
			return classifyV2Contract(p, 3)
		}
	case "FileContractResolutions":
		switch fld(p, 2) {
		case "Parent":
			return classifyParent(p, 2)
		case "Resolution":
			if op(p, 3) == "#kind" {
				return clMust // renewal / proof / expiration pay different outputs
			}
			switch f := fld(p, 3); f {
			case "FinalRenterOutput", "FinalHostOutput", "RenterRollover", "HostRollover":
				return clMust
			case "NewContract":
				return classifyV2Contract(p, 4)
			case "RenterSignature", "HostSignature":
				return clMustNot
			case "ProofIndex":
				if fld(p, 4) == "StateElement" && fld(p, 5) == "MerkleProof" {
					return clMustNot
				}
				return clArguable // leaf index / index element of the proof
			case "Leaf", "Proof":
				return clArguable
			}
		}
	case "Attestations":
		switch fld(p, 2) {
		case "PublicKey", "Key", "Value":
			return clMust
		case "Signature":
			return clArguable
		}
	}
	return clUnknown
}

// ------------------------------------------------------------------ IDs of one transaction

type kindIdx struct {
	kind string
	idx  int
}

type snap struct {
	id      types.TransactionID
	full    types.Hash256
	keys    []kindIdx
	derived []types.Hash256
}

const maxIdx = 6

func lim(n int) int { return min(n+1, maxIdx) }

// snapshot computes, through the library, the ID, the full hash and the derived IDs for
// the index ranges in lims (siacoin outputs, siafund outputs, contracts, attestations).
func snapshot(version int, v reflect.Value, lims [4]int) snap {
	var s snap
	add := func(kind string, i int, h types.Hash256) {
		s.keys = append(s.keys, kindIdx{kind, i})
		s.derived = append(s.derived, h)
	}
	if version == 1 {
		t := v.Addr().Interface().(*types.Transaction)
		s.id, s.full = t.ID(), t.FullHash()
		for i := 0; i < lims[0]; i++ {
			add("SiacoinOutputID", i, types.Hash256(t.SiacoinOutputID(i)))
		}
		for i := 0; i < lims[1]; i++ {
			add("SiafundOutputID", i, types.Hash256(t.SiafundOutputID(i)))
			add("SiafundClaimOutputID", i, types.Hash256(t.SiafundClaimOutputID(i)))
		}
		for i := 0; i < lims[2]; i++ {
			add("FileContractID", i, types.Hash256(t.FileContractID(i)))
		}
		return s
	}
	t := v.Addr().Interface().(*types.V2Transaction)
	s.id, s.full = t.ID(), t.FullHash()
	for i := 0; i < lims[0]; i++ {
		add("V2SiacoinOutputID", i, types.Hash256(t.SiacoinOutputID(s.id, i)))
	}
	for i := 0; i < lims[1]; i++ {
		add("V2SiafundOutputID", i, types.Hash256(t.SiafundOutputID(s.id, i)))
	}
	for i := 0; i < lims[2]; i++ {
		add("V2FileContractID", i, types.Hash256(t.V2FileContractID(s.id, i)))
	}
	for i := 0; i < lims[3]; i++ {
		add("AttestationID", i, types.Hash256(t.AttestationID(s.id, i)))
	}
	return s
}

func limsOf(version int, v reflect.Value) (l [4]int, groups int) {
	cnt := func(n int) int {
		if n > 0 {
			groups++
		}
		return n
	}
	if version == 1 {
		t := v.Interface().(types.Transaction)
		l = [4]int{lim(cnt(len(t.SiacoinOutputs))), lim(cnt(len(t.SiafundOutputs))), lim(cnt(len(t.FileContracts))), 0}
		cnt(len(t.SiacoinInputs))
		cnt(len(t.FileContractRevisions))
		cnt(len(t.StorageProofs))
		cnt(len(t.SiafundInputs))
		cnt(len(t.MinerFees))
		cnt(len(t.ArbitraryData))
		cnt(len(t.Signatures))
		return
	}
	t := v.Interface().(types.V2Transaction)
	l = [4]int{lim(cnt(len(t.SiacoinOutputs))), lim(cnt(len(t.SiafundOutputs))), lim(cnt(len(t.FileContracts))), lim(cnt(len(t.Attestations)))}
	cnt(len(t.SiacoinInputs))
	cnt(len(t.SiafundInputs))
	cnt(len(t.FileContractRevisions))
	cnt(len(t.FileContractResolutions))
	cnt(len(t.ArbitraryData))
	if t.NewFoundationAddress != nil {
		groups++
	}
	if !t.MinerFee.IsZero() {
		groups++
	}
	return
}

// refSnapshot recomputes the same values from the reference layout.
func refSnapshot(version int, v reflect.Value, lims [4]int) snap {
	var s snap
	add := func(h types.Hash256) { s.derived = append(s.derived, h) }
	if version == 1 {
		t := v.Interface().(types.Transaction)
		s.id, s.full = gen.RefTransactionID(t), gen.RefTransactionFullHash(t)
		for i := 0; i < lims[0]; i++ {
			add(types.Hash256(gen.RefSiacoinOutputID(t, i)))
		}
		for i := 0; i < lims[1]; i++ {
			add(types.Hash256(gen.RefSiafundOutputID(t, i)))
			add(types.Hash256(gen.RefSiafundClaimOutputID(gen.RefSiafundOutputID(t, i))))
		}
		for i := 0; i < lims[2]; i++ {
			add(types.Hash256(gen.RefFileContractID(t, i)))
		}
		return s
	}
	t := v.Interface().(types.V2Transaction)
	s.id, s.full = gen.RefV2TransactionID(t), gen.RefV2TransactionFullHash(t)
	for i := 0; i < lims[0]; i++ {
		add(types.Hash256(gen.RefV2SiacoinOutputID(s.id, i)))
	}
	for i := 0; i < lims[1]; i++ {
		add(types.Hash256(gen.RefV2SiafundOutputID(s.id, i)))
	}
	for i := 0; i < lims[2]; i++ {
		add(types.Hash256(gen.RefV2FileContractID(s.id, i)))
	}
	for i := 0; i < lims[3]; i++ {
		add(types.Hash256(gen.RefAttestationID(s.id, i)))
	}
	return s
}

// ------------------------------------------------------------------ derived-ID family

type famEntry struct {
	kind string
	src  types.Hash256 // what the ID was derived from (transaction / contract / siafund output / block ID)
	idx  int
	id   types.Hash256
}

type family struct {
	seen  map[[3]any]bool
	byID  map[types.Hash256]famEntry
	kinds map[string]bool
	clash *[2]famEntry
	// far indices are added once per family and derivation kind
	farContract, farV1, farV2, farBlock bool
}

func newFamily() *family {
	return &family{seen: map[[3]any]bool{}, byID: map[types.Hash256]famEntry{}, kinds: map[string]bool{}}
}

func (f *family) add(kind string, src types.Hash256, idx int, id types.Hash256) {
	k := [3]any{kind, src, idx}
	if f.seen[k] {
		return
	}
	f.seen[k] = true
	f.kinds[kind] = true
	e := famEntry{kind, src, idx, id}
	if o, ok := f.byID[id]; ok && f.clash == nil {
		f.clash = &[2]famEntry{o, e}
		return
	}
	f.byID[id] = e
}

// farIdx are indices beyond any list the generator builds: every byte of the 64-bit index has to be bound (a block
// may carry hundreds of miner payouts, a transaction thousands of outputs).
var farIdx = []int{255, 256, 257, 511, 512, 65535, 65536, 65537, 1 << 24, 1 << 32, 1<<32 + 1, 1 << 40, 1 << 56, 1<<62 + 256}

func (f *family) contract(id types.FileContractID) {
	src := types.Hash256(id)
	for j := 0; j < 3; j++ {
		f.add("ValidOutputID", src, j, types.Hash256(id.ValidOutputID(j)))
		f.add("MissedOutputID", src, j, types.Hash256(id.MissedOutputID(j)))
	}
	if !f.farContract {
		f.farContract = true // once per family is enough: the index handling does not depend on the contract
		for _, j := range farIdx {
			f.add("ValidOutputID", src, j, types.Hash256(id.ValidOutputID(j)))
			f.add("MissedOutputID", src, j, types.Hash256(id.MissedOutputID(j)))
		}
	}
	f.add("V2RenterOutputID", src, 0, types.Hash256(id.V2RenterOutputID()))
	f.add("V2HostOutputID", src, 0, types.Hash256(id.V2HostOutputID()))
	f.add("V2RenewalID", src, 0, types.Hash256(id.V2RenewalID()))
}

func (f *family) claims(id types.SiafundOutputID) {
	f.add("ClaimOutputID", types.Hash256(id), 0, types.Hash256(id.ClaimOutputID()))
	f.add("V2ClaimOutputID", types.Hash256(id), 0, types.Hash256(id.V2ClaimOutputID()))
}

func (f *family) v1(t *types.Transaction) {
	src := types.Hash256(t.ID())
	f.add("TransactionID", src, 0, src)
	for i := 0; i < lim(len(t.SiacoinOutputs)); i++ {
		f.add("SiacoinOutputID", src, i, types.Hash256(t.SiacoinOutputID(i)))
	}
	for i := 0; i < lim(len(t.SiafundOutputs)); i++ {
		id := t.SiafundOutputID(i)
		f.add("SiafundOutputID", src, i, types.Hash256(id))
		f.claims(id) // Transaction.SiafundClaimOutputID(i) is by definition ClaimOutputID of this ID (compared in snapshot)
	}
	for i := 0; i < lim(len(t.FileContracts)); i++ {
		id := t.FileContractID(i)
		f.add("FileContractID", src, i, types.Hash256(id))
		f.contract(id)
	}
	if !f.farV1 {
		f.farV1 = true
		for _, i := range farIdx {
			f.add("SiacoinOutputID", src, i, types.Hash256(t.SiacoinOutputID(i)))
			f.add("SiafundOutputID", src, i, types.Hash256(t.SiafundOutputID(i)))
			f.add("FileContractID", src, i, types.Hash256(t.FileContractID(i)))
		}
	}
	for _, in := range t.SiafundInputs {
		f.claims(in.ParentID)
	}
	for _, r := range t.FileContractRevisions {
		f.contract(r.ParentID)
	}
	for _, sp := range t.StorageProofs {
		f.contract(sp.ParentID)
	}
}

func (f *family) v2(t *types.V2Transaction) {
	txid := t.ID()
	src := types.Hash256(txid)
	f.add("V2TransactionID", src, 0, src)
	for i := 0; i < lim(len(t.SiacoinOutputs)); i++ {
		f.add("V2SiacoinOutputID", src, i, types.Hash256(t.SiacoinOutputID(txid, i)))
	}
	for i := 0; i < lim(len(t.SiafundOutputs)); i++ {
		id := t.SiafundOutputID(txid, i)
		f.add("V2SiafundOutputID", src, i, types.Hash256(id))
		f.claims(id)
	}
	for i := 0; i < lim(len(t.FileContracts)); i++ {
		id := t.V2FileContractID(txid, i)
		f.add("V2FileContractID", src, i, types.Hash256(id))
		f.contract(id)
	}
	for i := 0; i < lim(len(t.Attestations)); i++ {
		f.add("AttestationID", src, i, types.Hash256(t.AttestationID(txid, i)))
	}
	if !f.farV2 {
		f.farV2 = true
		for _, i := range farIdx {
			f.add("V2SiacoinOutputID", src, i, types.Hash256(t.SiacoinOutputID(txid, i)))
			f.add("V2SiafundOutputID", src, i, types.Hash256(t.SiafundOutputID(txid, i)))
			f.add("V2FileContractID", src, i, types.Hash256(t.V2FileContractID(txid, i)))
			f.add("AttestationID", src, i, types.Hash256(t.AttestationID(txid, i)))
		}
	}
	for _, in := range t.SiafundInputs {
		f.claims(in.Parent.ID)
	}
	for _, r := range t.FileContractRevisions {
		f.contract(r.Parent.ID)
	}
	for _, r := range t.FileContractResolutions {
		f.contract(r.Parent.ID)
	}
}

func (f *family) block(b *types.Block) {
	bid := b.ID()
	src := types.Hash256(bid)
	f.add("BlockID", src, 0, src)
	for i := 0; i < lim(len(b.MinerPayouts)); i++ {
		f.add("MinerOutputID", src, i, types.Hash256(bid.MinerOutputID(i)))
	}
	f.add("FoundationOutputID", src, 0, types.Hash256(bid.FoundationOutputID()))
	if !f.farBlock {
		f.farBlock = true
		for _, i := range farIdx {
			f.add("MinerOutputID", src, i, types.Hash256(bid.MinerOutputID(i)))
		}
	}
	for i := range b.Transactions {
		f.v1(&b.Transactions[i])
	}
	if b.V2 != nil {
		for i := range b.V2.Transactions {
			f.v2(&b.V2.Transactions[i])
		}
	}
}

func (f *family) err(what string) error {
	if f.clash == nil {
		return nil
	}
	a, b := f.clash[0], f.clash[1]
	return stats.Failf("C12/derived-id-collision/"+a.kind+"~"+b.kind,
		"%s: two different derivations give the same ID %v: %s(index %d, from %v) and %s(index %d, from %v)",
		what, a.id, a.kind, a.idx, a.src, b.kind, b.idx, b.src)
}

// ------------------------------------------------------------------ transaction field check

// effectEqual reports whether two list elements have the same effect-bearing content (so
// that swapping them is not a content change). Elements are compared after the classified
// witness fields have been levelled.
func swapCandidates(version int, v reflect.Value) []swapOp {
	var out []swapOp
	add := func(field string, n int, must bool, differ func(i int) bool) {
		for i := 0; i+1 < n && i < 4; i++ {
			if differ(i) {
				out = append(out, swapOp{field, i, must})
			}
		}
	}
	de := func(a, b any) bool { return !reflect.DeepEqual(a, b) }
	if version == 1 {
		t := v.Interface().(types.Transaction)
		add("SiacoinInputs", len(t.SiacoinInputs), true, func(i int) bool { return t.SiacoinInputs[i].ParentID != t.SiacoinInputs[i+1].ParentID })
		add("SiacoinOutputs", len(t.SiacoinOutputs), true, func(i int) bool { return t.SiacoinOutputs[i] != t.SiacoinOutputs[i+1] })
		add("FileContracts", len(t.FileContracts), true, func(i int) bool {
			a, b := t.FileContracts[i], t.FileContracts[i+1]
			// nil and empty output lists encode identically: compare the scalar terms only
			a.ValidProofOutputs, a.MissedProofOutputs, b.ValidProofOutputs, b.MissedProofOutputs = nil, nil, nil, nil
			return de(a, b)
		})
		add("FileContractRevisions", len(t.FileContractRevisions), true, func(i int) bool {
			return t.FileContractRevisions[i].ParentID != t.FileContractRevisions[i+1].ParentID
		})
		add("StorageProofs", len(t.StorageProofs), true, func(i int) bool { return t.StorageProofs[i].ParentID != t.StorageProofs[i+1].ParentID })
		add("SiafundInputs", len(t.SiafundInputs), true, func(i int) bool { return t.SiafundInputs[i].ParentID != t.SiafundInputs[i+1].ParentID })
		add("SiafundOutputs", len(t.SiafundOutputs), true, func(i int) bool { return t.SiafundOutputs[i] != t.SiafundOutputs[i+1] })
		add("MinerFees", len(t.MinerFees), true, func(i int) bool { return t.MinerFees[i] != t.MinerFees[i+1] })
		add("ArbitraryData", len(t.ArbitraryData), true, func(i int) bool { return !bytes.Equal(t.ArbitraryData[i], t.ArbitraryData[i+1]) })
		add("Signatures", len(t.Signatures), false, func(i int) bool {
			a, b := t.Signatures[i], t.Signatures[i+1]
			return a.ParentID != b.ParentID || a.PublicKeyIndex != b.PublicKeyIndex || a.Timelock != b.Timelock
		})
		return out
	}
	t := v.Interface().(types.V2Transaction)
	add("SiacoinInputs", len(t.SiacoinInputs), true, func(i int) bool { return t.SiacoinInputs[i].Parent.ID != t.SiacoinInputs[i+1].Parent.ID })
	add("SiacoinOutputs", len(t.SiacoinOutputs), true, func(i int) bool { return t.SiacoinOutputs[i] != t.SiacoinOutputs[i+1] })
	add("SiafundInputs", len(t.SiafundInputs), true, func(i int) bool { return t.SiafundInputs[i].Parent.ID != t.SiafundInputs[i+1].Parent.ID })
	add("SiafundOutputs", len(t.SiafundOutputs), true, func(i int) bool { return t.SiafundOutputs[i] != t.SiafundOutputs[i+1] })
	add("FileContracts", len(t.FileContracts), true, func(i int) bool {
		a, b := t.FileContracts[i], t.FileContracts[i+1]
		a.RenterSignature, a.HostSignature, b.RenterSignature, b.HostSignature = types.Signature{}, types.Signature{}, types.Signature{}, types.Signature{}
		return a != b
	})
	add("FileContractRevisions", len(t.FileContractRevisions), true, func(i int) bool {
		return t.FileContractRevisions[i].Parent.ID != t.FileContractRevisions[i+1].Parent.ID
	})
	add("FileContractResolutions", len(t.FileContractResolutions), true, func(i int) bool {
		return t.FileContractResolutions[i].Parent.ID != t.FileContractResolutions[i+1].Parent.ID
	})
	add("Attestations", len(t.Attestations), true, func(i int) bool {
		a, b := t.Attestations[i], t.Attestations[i+1]
		return a.PublicKey != b.PublicKey || a.Key != b.Key || !bytes.Equal(a.Value, b.Value)
	})
	return out
}

type swapOp struct {
	field string
	i     int
	must  bool
}

func applySwap(v reflect.Value, s swapOp) reflect.Value {
	m := clone(v)
	f := m.FieldByName(s.field)
	c := reflect.MakeSlice(f.Type(), f.Len(), f.Len())
	reflect.Copy(c, f)
	a, b := clone(c.Index(s.i)), clone(c.Index(s.i+1))
	c.Index(s.i).Set(b)
	c.Index(s.i + 1).Set(a)
	f.Set(c)
	return m
}

// judge compares the snapshot of a mutated transaction with the base one.
func judge(ver int, cl class, what string, base, mut snap, v, m reflect.Value) error {
	vs := fmt.Sprintf("v%d", ver)
	switch cl {
	case clMust:
		if mut.id == base.id {
			return stats.Failf("C12/"+vs+"/id-unbound/"+what, "%s transaction: %s is effect-bearing but a minimal change of it leaves the transaction ID %v unchanged\n before %s\n after  %s", vs, what, base.id, short(v), short(m))
		}
		for i := range base.derived {
			if mut.derived[i] == base.derived[i] {
				k := base.keys[i]
				return stats.Failf("C12/"+vs+"/derived-unbound/"+k.kind, "%s transaction: %s changed but %s(%d) = %v did not\n before %s\n after  %s", vs, what, k.kind, k.idx, base.derived[i], short(v), short(m))
			}
		}
	case clMustNot:
		if mut.id != base.id {
			return stats.Failf("C12/"+vs+"/id-malleable/"+what, "%s transaction: %s is witness data but changing it changes the transaction ID (%v -> %v)\n before %s\n after  %s", vs, what, base.id, mut.id, short(v), short(m))
		}
		for i := range base.derived {
			if mut.derived[i] != base.derived[i] {
				k := base.keys[i]
				return stats.Failf("C12/"+vs+"/derived-malleable/"+k.kind, "%s transaction: %s is witness data but changing it changes %s(%d)\n before %s\n after  %s", vs, what, k.kind, k.idx, short(v), short(m))
			}
		}
		if mut.full == base.full {
			return stats.Failf("C12/"+vs+"/fullhash-unbound/"+what, "%s transaction: changing %s leaves FullHash %v unchanged (the full hash must cover witness data)\n before %s\n after  %s", vs, what, base.full, short(v), short(m))
		}
	}
	return nil
}

// checkTxn runs the ID oracle on one transaction value (addressable). origin tags the labels
// ("gen" / "sim"); maxPaths bounds the number of mutated leaf paths.
func checkTxn(ver int, v reflect.Value, seed uint64, maxPaths int, origin string) error {
	rec := stats.G()
	vs := fmt.Sprintf("v%d", ver)
	lims, groups := limsOf(ver, v)
	if seed%4 == 0 {
		// IDs are a function of the content, not of what the process hashed before: calls that panic half-way through
		// hashing (and are recovered, as an RPC handler would) must leave nothing behind in the pooled hashers
		n := netOf([3]uint64{1, 2, 3})
		if sim.AbortedCalls(stateAt(n, 5), types.Block{}) > 0 {
			rec.Label("after-recovered-hashing-panics")
		}
	}
	base := snapshot(ver, v, lims)

	// library == reference layout
	ref := refSnapshot(ver, v, lims)
	if noRef {
		ref = base
	}
	if base.id != ref.id {
		return stats.Failf("C12/"+vs+"/id-layout", "%s transaction ID %v differs from the reference recomputation %v\n %s", vs, base.id, ref.id, short(v))
	}
	if base.full != ref.full {
		return stats.Failf("C12/"+vs+"/fullhash-layout", "%s FullHash %v differs from the reference recomputation %v\n %s", vs, base.full, ref.full, short(v))
	}
	for i := range base.derived {
		if base.derived[i] != ref.derived[i] {
			k := base.keys[i]
			return stats.Failf("C12/"+vs+"/derived-layout/"+k.kind, "%s(%d) = %v, reference recomputation gives %v\n %s", k.kind, k.idx, base.derived[i], ref.derived[i], short(v))
		}
	}

	// derived family pairwise distinct
	fam := newFamily()
	if ver == 1 {
		fam.v1(v.Addr().Interface().(*types.Transaction))
	} else {
		fam.v2(v.Addr().Interface().(*types.V2Transaction))
	}
	if err := fam.err(vs + " transaction " + short(v)); err != nil {
		return err
	}
	rec.Case(stats.FP("family", vs, base.id[:]), len(fam.kinds) >= 4, origin+":family:"+vs)
	rec.Extra("family-ids-compared", uint64(len(fam.byID)))

	rich := groups >= 3
	classify := classifyV2
	if ver == 1 {
		classify = classifyV1
	}
	for _, p := range samplePaths(gen.Fields(v), maxPaths, &seed) {
		cl := classify(p)
		ms := splitmix(&seed)
		switch cl {
		case clUnknown:
			return stats.Failf("", "harness: path %s of a %s transaction is not classified", p, vs)
		case clSkip:
			rec.Extra("not-transmitted-skipped", 1)
			continue
		}
		m := clone(v)
		if err := gen.MutateAt(m, p, ms); err != nil {
			return stats.Failf("", "harness: mutate %s at %s: %v", vs, p, err)
		}
		if reflect.DeepEqual(m.Interface(), v.Interface()) {
			return stats.Failf("", "harness: mutation at %s is a no-op", p)
		}
		if cl == clArguable {
			rec.Case(stats.FP(vs, p.String(), base.id[:]), false, origin+":"+vs+":arguable(not asserted)")
			continue
		}
		mut := snapshot(ver, m, lims)
		if err := judge(ver, cl, keyShape(p.Shape()), base, mut, v, m); err != nil {
			return err
		}
		rec.Case(stats.FP(vs, p.String(), base.id[:]), rich, origin+":"+vs+":"+cl.String(), "path:"+vs+":"+labelShape(p))
	}
	for _, s := range swapCandidates(ver, v) {
		m := applySwap(v, s)
		cl := clMustNot
		if s.must {
			cl = clMust
		}
		mut := snapshot(ver, m, lims)
		// a swap moves outputs / contracts to other indices: the derived IDs at a fixed index are
		// functions of (transaction ID, index), so the same per-index comparison applies
		if err := judge(ver, cl, s.field+"#order", base, mut, v, m); err != nil {
			return err
		}
		rec.Case(stats.FP(vs, s.field, "swap", s.i, base.id[:]), rich, origin+":"+vs+":"+cl.String(), "path:"+vs+":"+s.field+"#order")
	}
	if rich {
		rec.Label(origin + ":" + vs + ":txn>=3groups")
	}
	if rec.WantSample() && rich {
		rec.Sample(true, map[string]any{"unit": "txn", "origin": origin, "version": ver, "groups": groups, "id": base.id.String(), "derived": len(base.derived)})
	}
	return nil
}

// TxnCase is one generated transaction.
type TxnCase struct {
	Version int    `json:"version"`
	Seed    uint64 `json:"seed"`
	Txn     Val    `json:"txn"`
}

func genOpts() gen.Opts {
	o := gen.Opts{}
	if stats.Thorough() {
		o.Fuel = 60
	}
	return o
}

func drawTxn(t *rapid.T) TxnCase {
	c := TxnCase{Version: 1 + rapid.IntRange(0, 1).Draw(t, "version"), Seed: rapid.Uint64().Draw(t, "seed")}
	if c.Version == 1 {
		c.Txn = live(gen.Of[types.Transaction](t, genOpts()))
	} else {
		c.Txn = live(gen.Of[types.V2Transaction](t, genOpts()))
	}
	return c
}

func checkTxnCase(c TxnCase) error {
	typ := tV2Txn
	if c.Version == 1 {
		typ = tTxn
	} else if c.Version != 2 {
		return stats.Failf("", "harness: version %d", c.Version)
	}
	v, err := c.Txn.get(typ)
	if err != nil {
		return stats.Failf("", "harness: %v", err)
	}
	return checkTxn(c.Version, v, c.Seed, stats.EnvInt("C12_MAXPATHS", 400), "gen")
}

func TestTxnFields(t *testing.T)       { stats.Prop(t, drawTxn, checkTxnCase) }
func TestReplayTxnFields(t *testing.T) { stats.Replay(t, "TestTxnFields", checkTxnCase) }

// ------------------------------------------------------------------ signature hashes

// SigCase: fork heights (ASIC <= Foundation <= v2 allow), a v1 and a v2 transaction.
type SigCase struct {
	Seed  uint64    `json:"seed"`
	Forks [3]uint64 `json:"forks"`
	Txn   Val       `json:"txn"`
	V2    Val       `json:"v2"`
}

func drawSig(t *rapid.T) SigCase {
	a := uint64(rapid.IntRange(0, 6).Draw(t, "asic"))
	b := a + uint64(rapid.IntRange(0, 5).Draw(t, "foundation"))
	c := b + uint64(rapid.IntRange(0, 5).Draw(t, "allow"))
	o := genOpts()
	o.Fuel = 24
	return SigCase{Seed: rapid.Uint64().Draw(t, "seed"), Forks: [3]uint64{a, b, c},
		Txn: live(gen.Of[types.Transaction](t, o)), V2: live(gen.Of[types.V2Transaction](t, o))}
}

func netOf(f [3]uint64) *consensus.Network {
	n := &consensus.Network{Name: "c12"}
	n.HardforkASIC.Height, n.HardforkFoundation.Height, n.HardforkV2.AllowHeight = f[0], f[1], f[2]
	n.HardforkV2.RequireHeight, n.HardforkV2.FinalCutHeight = f[2]+10, f[2]+20
	return n
}

func stateAt(n *consensus.Network, h uint64) consensus.State {
	s := consensus.State{Network: n}
	s.Index.Height = h
	return s
}

// subset draws an index list into a field of n elements: random subset, sometimes reversed,
// sometimes with a repeated index (the hash functions accept any list of valid indices).
func subset(n int, seed *uint64) []uint64 {
	var out []uint64
	r := splitmix(seed)
	for i := 0; i < n && i < 60; i++ {
		if r&(1<<uint(i)) != 0 {
			out = append(out, uint64(i))
		}
	}
	if r>>61&1 == 1 {
		for i, j := 0, len(out)-1; i < j; i, j = i+1, j-1 {
			out[i], out[j] = out[j], out[i]
		}
	}
	if r>>62&1 == 1 && len(out) > 0 {
		out = append(out, out[0])
	}
	return out
}

var eraNames = map[int]string{-1: "pre-asic(no prefix)", 0: "asic(0)", 1: "foundation(1)", 2: "v2(2)"}

// checkV1Eras: library == reference at every probe height; hashes of different eras differ
// pairwise when bound is true (at least one siacoin / siafund input is covered).
func checkV1Eras(n *consensus.Network, heights []uint64, bound bool, kind string, lib func(consensus.State) types.Hash256, ref func(prefix []byte) types.Hash256) (eras int, err error) {
	byEra := map[int]types.Hash256{}
	for _, h := range heights {
		s := stateAt(n, h)
		got, want := lib(s), ref(refPrefix(n, h))
		if got != want && !noRef {
			return 0, stats.Failf("C12/sighash/"+kind+"-layout", "State(height %d, forks %d/%d/%d).%sSigHash = %v, reference recomputation (replay prefix %v) gives %v",
				h, n.HardforkASIC.Height, n.HardforkFoundation.Height, n.HardforkV2.AllowHeight, kind, got, refPrefix(n, h), want)
		}
		byEra[era(n, h)] = got
	}
	if !bound {
		return len(byEra), nil
	}
	es := make([]int, 0, 4)
	for e := range byEra {
		es = append(es, e)
	}
	sort.Ints(es)
	for i := range es {
		for j := i + 1; j < len(es); j++ {
			if byEra[es[i]] == byEra[es[j]] {
				return 0, stats.Failf("C12/sighash/"+kind+"-era-replay", "%s signature hash covering an input is the same (%v) in era %s and era %s: a signature can be replayed across the hardfork",
					kind, byEra[es[i]], eraNames[es[i]], eraNames[es[j]])
			}
		}
	}
	return len(byEra), nil
}

func probeHeights(f [3]uint64) []uint64 {
	hs := []uint64{0, ^uint64(0)}
	for _, x := range f {
		if x > 0 {
			hs = append(hs, x-1)
		}
		hs = append(hs, x, x+1)
	}
	hs = append(hs, f[2]+7)
	return hs
}

// checkV1SigHashes runs the whole / partial oracle for one v1 transaction.
func checkV1SigHashes(n *consensus.Network, heights []uint64, txn types.Transaction, seed uint64) (bound bool, eras int, err error) {
	var parentID types.Hash256
	gen.FillSeed(parentID[:], splitmix(&seed))
	pkIndex, timelock := splitmix(&seed)>>uint(splitmix(&seed)%64), splitmix(&seed)>>uint(splitmix(&seed)%64)
	covered := subset(len(txn.Signatures), &seed)
	hasInputs := len(txn.SiacoinInputs)+len(txn.SiafundInputs) > 0
	eras, err = checkV1Eras(n, heights, hasInputs, "Whole",
		func(s consensus.State) types.Hash256 {
			return s.WholeSigHash(txn, parentID, pkIndex, timelock, covered)
		},
		func(p []byte) types.Hash256 { return refWholeSigHash(p, txn, parentID, pkIndex, timelock, covered) })
	if err != nil {
		return
	}
	cf := types.CoveredFields{
		SiacoinInputs: subset(len(txn.SiacoinInputs), &seed), SiacoinOutputs: subset(len(txn.SiacoinOutputs), &seed),
		FileContracts: subset(len(txn.FileContracts), &seed), FileContractRevisions: subset(len(txn.FileContractRevisions), &seed),
		StorageProofs: subset(len(txn.StorageProofs), &seed), SiafundInputs: subset(len(txn.SiafundInputs), &seed),
		SiafundOutputs: subset(len(txn.SiafundOutputs), &seed), MinerFees: subset(len(txn.MinerFees), &seed),
		ArbitraryData: subset(len(txn.ArbitraryData), &seed), Signatures: subset(len(txn.Signatures), &seed),
	}
	cfInputs := len(cf.SiacoinInputs)+len(cf.SiafundInputs) > 0
	if _, err = checkV1Eras(n, heights, cfInputs, "Partial",
		func(s consensus.State) types.Hash256 { return s.PartialSigHash(txn, cf) },
		func(p []byte) types.Hash256 { return refPartialSigHash(p, txn, cf) }); err != nil {
		return
	}
	// a signature that is not listed as covered is witness data for both hashes
	uncovered := func(list []uint64) int {
		for j := range txn.Signatures {
			in := false
			for _, c := range list {
				in = in || c == uint64(j)
			}
			if !in {
				return j
			}
		}
		return -1
	}
	perturb := func(j int) types.Transaction {
		t2 := txn
		t2.Signatures = append([]types.TransactionSignature(nil), txn.Signatures...)
		t2.Signatures[j].Signature = append(append([]byte(nil), t2.Signatures[j].Signature...), 0x5a)
		t2.Signatures[j].Timelock++
		return t2
	}
	s := stateAt(n, heights[len(heights)-1])
	if j := uncovered(covered); j >= 0 {
		if s.WholeSigHash(txn, parentID, pkIndex, timelock, covered) != s.WholeSigHash(perturb(j), parentID, pkIndex, timelock, covered) {
			return false, 0, stats.Failf("C12/sighash/Whole-covers-uncovered-signature", "WholeSigHash changes with signature %d, which is not among the covered signatures %v", j, covered)
		}
	}
	if j := uncovered(cf.Signatures); j >= 0 {
		if s.PartialSigHash(txn, cf) != s.PartialSigHash(perturb(j), cf) {
			return false, 0, stats.Failf("C12/sighash/Partial-covers-uncovered-signature", "PartialSigHash changes with signature %d, which is not among the covered signatures %v", j, cf.Signatures)
		}
	}
	return hasInputs || cfInputs, eras, nil
}

type purposeHash struct {
	purpose string
	payload []byte
	h       types.Hash256
}

// checkV2SigHashes: the four v2 hashes of everything inside txn equal the reference in state s,
// and hashes of different purposes are pairwise different.
func checkV2SigHashes(s consensus.State, txn types.V2Transaction) (n int, err error) {
	var all []purposeHash
	bad := func(name string, got, want types.Hash256) error {
		return stats.Failf("C12/sighash/"+name+"-layout", "State.%sSigHash = %v, reference recomputation (\"sia/sig/...|\" ‖ 0x02 ‖ payload with zeroed signatures) gives %v", name, got, want)
	}
	if got, want := s.InputSigHash(txn), refInputSigHash(txn); got != want && !noRef {
		return 0, bad("Input", got, want)
	} else {
		all = append(all, purposeHash{"input", inputPayload(txn), got})
		// the witnesses (satisfied policies, contract signatures) are not part of what is signed
		t2 := txn
		t2.SiacoinInputs = append([]types.V2SiacoinInput(nil), txn.SiacoinInputs...)
		for i := range t2.SiacoinInputs {
			t2.SiacoinInputs[i].SatisfiedPolicy.Signatures = append(append([]types.Signature(nil), t2.SiacoinInputs[i].SatisfiedPolicy.Signatures...), types.Signature{1})
		}
		t2.FileContracts = append([]types.V2FileContract(nil), txn.FileContracts...)
		for i := range t2.FileContracts {
			t2.FileContracts[i].HostSignature[5] ^= 0x10
		}
		if len(t2.SiacoinInputs)+len(t2.FileContracts) > 0 && s.InputSigHash(t2) != got {
			return 0, stats.Failf("C12/sighash/Input-covers-signature", "InputSigHash changes when only input / contract signatures change")
		}
	}
	sigs := func(x *types.Signature) { x[0] ^= 1; x[63] ^= 0x80 }
	contract := func(fc types.V2FileContract) error {
		got, want := s.ContractSigHash(fc), refContractSigHash(fc)
		if got != want && !noRef {
			return bad("Contract", got, want)
		}
		all = append(all, purposeHash{"filecontract", contractPayload(fc), got})
		sigs(&fc.RenterSignature)
		sigs(&fc.HostSignature)
		if s.ContractSigHash(fc) != got {
			return stats.Failf("C12/sighash/Contract-covers-signature", "ContractSigHash changes when only the contract's signatures change")
		}
		return nil
	}
	for _, fc := range txn.FileContracts {
		if err := contract(fc); err != nil {
			return 0, err
		}
	}
	for _, r := range txn.FileContractRevisions {
		if err := contract(r.Revision); err != nil {
			return 0, err
		}
	}
	for _, r := range txn.FileContractResolutions {
		if rn, ok := r.Resolution.(*types.V2FileContractRenewal); ok && rn != nil {
			got, want := s.RenewalSigHash(*rn), refRenewalSigHash(*rn)
			if got != want && !noRef {
				return 0, bad("Renewal", got, want)
			}
			all = append(all, purposeHash{"filecontractrenewal", renewalPayload(*rn), got})
			r2 := *rn
			sigs(&r2.RenterSignature)
			sigs(&r2.HostSignature)
			sigs(&r2.NewContract.RenterSignature)
			sigs(&r2.NewContract.HostSignature)
			if s.RenewalSigHash(r2) != got {
				return 0, stats.Failf("C12/sighash/Renewal-covers-signature", "RenewalSigHash changes when only the renewal's / new contract's signatures change")
			}
			if err := contract(rn.NewContract); err != nil {
				return 0, err
			}
		}
	}
	for _, a := range txn.Attestations {
		got, want := s.AttestationSigHash(a), refAttestationSigHash(a)
		if got != want && !noRef {
			return 0, bad("Attestation", got, want)
		}
		all = append(all, purposeHash{"attestation", attestationPayload(a), got})
		sigs(&a.Signature)
		if s.AttestationSigHash(a) != got {
			return 0, stats.Failf("C12/sighash/Attestation-covers-signature", "AttestationSigHash changes when only the attestation's signature changes")
		}
	}
	if err := distinctPurposes(all); err != nil {
		return 0, err
	}
	return len(all), nil
}

func distinctPurposes(all []purposeHash) error {
	for i := range all {
		for j := i + 1; j < len(all); j++ {
			if all[i].h == all[j].h && (all[i].purpose != all[j].purpose || !bytes.Equal(all[i].payload, all[j].payload)) {
				return stats.Failf("C12/sighash/purpose/"+all[i].purpose+"~"+all[j].purpose,
					"the %s signature hash and the %s signature hash coincide (%v): a signature made for one purpose verifies for the other\n payload A %x\n payload B %x",
					all[i].purpose, all[j].purpose, all[i].h, all[i].payload, all[j].payload)
			}
		}
	}
	return nil
}

func le64(v uint64) []byte { return binary.LittleEndian.AppendUint64(nil, v) }

// checkPurposeOverlap builds objects of two different signature purposes whose signed
// payloads are byte-for-byte identical and requires their signature hashes to differ.
func checkPurposeOverlap(s consensus.State, seed uint64) error {
	rec := stats.G()
	rnd := func(n int) []byte { b := make([]byte, n); gen.FillSeed(b, splitmix(&seed)); return b }
	pair := func(name string, payload []byte, a, b purposeHash) error {
		if !bytes.Equal(a.payload, payload) || !bytes.Equal(b.payload, payload) {
			return stats.Failf("", "harness: %s: constructed payloads are not identical (%d / %d / %d bytes)", name, len(payload), len(a.payload), len(b.payload))
		}
		if err := distinctPurposes([]purposeHash{a, b}); err != nil {
			return err
		}
		rec.Case(stats.FP("overlap", name, payload), true, "purpose-overlap:"+name)
		return nil
	}
	att := func(payload []byte) (purposeHash, error) {
		a, ok := parseAttestation(payload)
		if !ok {
			return purposeHash{}, stats.Failf("", "harness: payload does not parse as an attestation")
		}
		gen.FillSeed(a.Signature[:], splitmix(&seed)) // signatures are not part of the payload
		return purposeHash{"attestation", attestationPayload(a), s.AttestationSigHash(a)}, nil
	}
	con := func(payload []byte) (purposeHash, error) {
		fc, ok := parseContract(payload)
		if !ok {
			return purposeHash{}, stats.Failf("", "harness: payload does not parse as a contract")
		}
		gen.FillSeed(fc.RenterSignature[:], splitmix(&seed))
		return purposeHash{"filecontract", contractPayload(fc), s.ContractSigHash(fc)}, nil
	}
	ren := func(payload []byte) (purposeHash, error) {
		r, ok := parseRenewal(payload)
		if !ok {
			return purposeHash{}, stats.Failf("", "harness: payload does not parse as a renewal")
		}
		gen.FillSeed(r.HostSignature[:], splitmix(&seed))
		gen.FillSeed(r.NewContract.HostSignature[:], splitmix(&seed))
		return purposeHash{"filecontractrenewal", renewalPayload(r), s.RenewalSigHash(r)}, nil
	}

	// (a) contract ~ attestation: 264 free bytes + 128 zero bytes; bytes 32..40 are the key length k,
	// bytes 40+k..48+k the value length 280-k, the final 64 zero bytes the attestation signature
	{
		p := append(rnd(contractLen-128), make([]byte, 128)...)
		k := int(splitmix(&seed) % 200)
		copy(p[32:], le64(uint64(k)))
		copy(p[40+k:], le64(uint64(contractLen-48-64-k)))
		a, err := att(p)
		if err != nil {
			return err
		}
		c, err := con(p)
		if err != nil {
			return err
		}
		if err := pair("contract~attestation", p, c, a); err != nil {
			return err
		}
	}
	// (b) renewal ~ attestation: 392 free bytes, then the four zeroed signatures
	{
		p := append(rnd(renewalLen-256), make([]byte, 256)...)
		k := int(splitmix(&seed) % 300)
		copy(p[32:], le64(uint64(k)))
		copy(p[40+k:], le64(uint64(renewalLen-48-64-k)))
		a, err := att(p)
		if err != nil {
			return err
		}
		r, err := ren(p)
		if err != nil {
			return err
		}
		if err := pair("renewal~attestation", p, r, a); err != nil {
			return err
		}
	}
	// v2 transactions whose semantic encoding has a prescribed length and zero tail: a inputs,
	// b outputs and arbitrary data ending in zeros (then: no foundation address, zero fee)
	semTxn := func(total, zeroTail int) types.V2Transaction {
		var t types.V2Transaction
		a, b := int(splitmix(&seed)%3), int(splitmix(&seed)%3)
		t.SiacoinInputs = make([]types.V2SiacoinInput, a)
		for i := range t.SiacoinInputs {
			gen.FillSeed(t.SiacoinInputs[i].Parent.ID[:], splitmix(&seed))
			t.SiacoinInputs[i].Parent.StateElement.LeafIndex = splitmix(&seed)
		}
		t.SiacoinOutputs = make([]types.SiacoinOutput, b)
		for i := range t.SiacoinOutputs {
			t.SiacoinOutputs[i].Value = types.NewCurrency(splitmix(&seed), splitmix(&seed))
			gen.FillSeed(t.SiacoinOutputs[i].Address[:], splitmix(&seed))
		}
		l := total - 89 - 32*a - 48*b
		t.ArbitraryData = append(rnd(l-(zeroTail-17)), make([]byte, zeroTail-17)...)
		return t
	}
	// (c) input ~ contract
	{
		t := semTxn(contractLen, 128)
		p := inputPayload(t)
		c, err := con(p)
		if err != nil {
			return err
		}
		if err := pair("input~contract", p, purposeHash{"input", p, s.InputSigHash(t)}, c); err != nil {
			return err
		}
	}
	// (d) input ~ renewal
	{
		t := semTxn(renewalLen, 256)
		p := inputPayload(t)
		r, err := ren(p)
		if err != nil {
			return err
		}
		if err := pair("input~renewal", p, purposeHash{"input", p, s.InputSigHash(t)}, r); err != nil {
			return err
		}
	}
	// (e) input ~ attestation: no inputs / outputs (32 zero bytes = public key), one contract
	// (count 1 = key length), key = low byte of the capacity, value length in the next 8 bytes
	{
		var t types.V2Transaction
		fcb := append(rnd(contractLen-128), make([]byte, 128)...)
		l := 47 + int(splitmix(&seed)%40)
		total := 40 + contractLen + 24 + 8 + l + 17
		copy(fcb[1:], le64(uint64(total-49-64)))
		fc, ok := parseContract(fcb)
		if !ok {
			return stats.Failf("", "harness: contract bytes do not parse")
		}
		t.FileContracts = []types.V2FileContract{fc}
		t.ArbitraryData = append(rnd(l-47), make([]byte, 47)...)
		p := inputPayload(t)
		if len(p) != total {
			return stats.Failf("", "harness: semantic encoding has %d bytes, expected %d", len(p), total)
		}
		a, err := att(p)
		if err != nil {
			return err
		}
		if err := pair("input~attestation", p, purposeHash{"input", p, s.InputSigHash(t)}, a); err != nil {
			return err
		}
	}
	return nil
}

func checkSig(c SigCase) error {
	rec := stats.G()
	if !(c.Forks[0] <= c.Forks[1] && c.Forks[1] <= c.Forks[2]) {
		return stats.Failf("", "harness: fork heights not ordered")
	}
	txn, err := valOf[types.Transaction](c.Txn)
	if err != nil {
		return stats.Failf("", "harness: %v", err)
	}
	v2, err := valOf[types.V2Transaction](c.V2)
	if err != nil {
		return stats.Failf("", "harness: %v", err)
	}
	n := netOf(c.Forks)
	seed := c.Seed
	bound, eras, err := checkV1SigHashes(n, probeHeights(c.Forks), txn, splitmix(&seed))
	if err != nil {
		return err
	}
	labels := []string{fmt.Sprintf("eras:%d", eras)}
	if bound {
		labels = append(labels, "v1:input-covered(era-bound)")
	} else {
		labels = append(labels, "v1:no-input(no era binding, excluded)")
	}
	nv2 := 0
	for _, h := range []uint64{0, c.Forks[2], c.Forks[2] + 3} {
		if nv2, err = checkV2SigHashes(stateAt(n, h), v2); err != nil {
			return err
		}
	}
	if err := checkPurposeOverlap(stateAt(n, c.Forks[2]), splitmix(&seed)); err != nil {
		return err
	}
	labels = append(labels, fmt.Sprintf("v2:sighashes:%d", min(nv2, 6)))
	id := txn.ID()
	id2 := v2.ID()
	rec.Case(stats.FP("sig", id[:], id2[:], c.Seed, fmt.Sprint(c.Forks)), (bound && eras >= 2) || nv2 >= 2, labels...)
	if rec.WantSample() {
		rec.Sample(bound, map[string]any{"unit": "sighash", "forks": c.Forks, "eras": eras, "v1_inputs": len(txn.SiacoinInputs) + len(txn.SiafundInputs), "v2_sighashes": nv2})
	}
	return nil
}

func TestSigHash(t *testing.T)       { stats.Prop(t, drawSig, checkSig) }
func TestReplaySigHash(t *testing.T) { stats.Replay(t, "TestSigHash", checkSig) }

// ------------------------------------------------------------------ generated blocks

type BlockCase struct {
	Seed  uint64 `json:"seed"`
	Block Val    `json:"block"`
}

func drawBlock(t *rapid.T) BlockCase {
	o := genOpts()
	return BlockCase{Seed: rapid.Uint64().Draw(t, "seed"), Block: live(gen.Of[types.Block](t, o))}
}

func isHeaderPath(p gen.Path) bool {
	switch fld(p, 0) {
	case "ParentID", "Nonce", "Timestamp":
		return true
	}
	return false
}

func checkBlockGen(c BlockCase) error {
	rec := stats.G()
	v, err := c.Block.get(tBlock)
	if err != nil {
		return stats.Failf("", "harness: %v", err)
	}
	b := v.Addr().Interface().(*types.Block)
	id := b.ID()
	if want := gen.RefBlockID(*b); id != want && !noRef {
		return stats.Failf("C12/block/id-layout", "Block.ID = %v, reference recomputation gives %v\n %s", id, want, short(v))
	}
	// the header fields: the ID binds the timestamp as it is transmitted (whole seconds). Any time within the same second
	// is the same block (it encodes identically), the neighbouring seconds are different blocks, and so are the
	// neighbouring nonces and another parent
	{
		base := b.Timestamp.Truncate(time.Second)
		for _, ns := range []time.Duration{1, 499_999_999, 500_000_000, 999_999_999} {
			x := *b
			x.Timestamp = base.Add(ns)
			y := *b
			y.Timestamp = base
			if x.ID() != y.ID() {
				return stats.Failf("C12/block/timestamp-subsecond", "a block stamped %v and the same block stamped %v encode identically (whole seconds) but have different IDs", x.Timestamp.UTC(), y.Timestamp.UTC())
			}
		}
		for _, d := range []time.Duration{time.Second, -time.Second} {
			x := *b
			x.Timestamp = base.Add(d)
			if x.ID() == id && b.Timestamp.Equal(base) {
				return stats.Failf("C12/block/timestamp-unbound", "moving the timestamp by %v leaves the block ID unchanged", d)
			}
		}
		x := *b
		x.Nonce ^= 1
		if x.ID() == id {
			return stats.Failf("C12/block/nonce-unbound", "changing the nonce leaves the block ID unchanged")
		}
		x = *b
		x.ParentID[31] ^= 1
		if x.ID() == id {
			return stats.Failf("C12/block/parent-unbound", "changing the parent ID leaves the block ID unchanged")
		}
	}
	fam := newFamily()
	fam.block(b)
	if err := fam.err("block " + id.String()); err != nil {
		return err
	}
	seed := c.Seed
	ver := "v1"
	if b.V2 != nil {
		ver = "v2"
	}
	leaves := len(b.MinerPayouts) + len(b.Transactions)
	checked := 0
	for _, p := range samplePaths(gen.Fields(v), stats.EnvInt("C12_BLOCKPATHS", 80), &seed) {
		ms := splitmix(&seed)
		if isHeaderPath(p) {
			continue
		}
		if nt, _ := gen.NotTransmitted(txnEntry, v, p); nt {
			rec.Extra("not-transmitted-skipped", 1)
			continue
		}
		assert := false
		switch {
		case b.V2 == nil && fld(p, 0) != "V2":
			assert = true // the Merkle root commits to payouts and transactions
		case b.V2 == nil:
			// V2#nil attaches minimal v2 data (zero commitment): a content change unless the v1
			// Merkle root is zero as well (block without payouts and transactions)
			assert = gen.RefV1BlockCommitment(*b) != types.Hash256{}
		case fld(p, 0) == "V2" && op(p, 1) == "#nil":
			// dropping the v2 data turns the stored commitment into the v1 Merkle root
			assert = gen.RefV1BlockCommitment(*b) != b.V2.Commitment
		case fld(p, 0) == "V2" && fld(p, 1) == "Commitment":
			assert = true
		}
		if !assert {
			rec.Case(stats.FP("blockgen", id[:], p.String()), false, "blockgen:"+ver+":stored-commitment(decided on sim chains)")
			continue
		}
		m := clone(v)
		if err := gen.MutateAt(m, p, ms); err != nil {
			return stats.Failf("", "harness: mutate block at %s: %v", p, err)
		}
		if reflect.DeepEqual(m.Interface(), v.Interface()) {
			return stats.Failf("", "harness: mutation at %s is a no-op", p)
		}
		if mid := m.Addr().Interface().(*types.Block).ID(); mid == id {
			return stats.Failf("C12/block/"+ver+"-id-unbound/"+keyShape(labelShape(p)), "%s block: changing %s (header fields kept) leaves the block ID %v unchanged\n before %s\n after  %s", ver, p, id, short(v), short(m))
		}
		checked++
		rec.Case(stats.FP("blockgen", id[:], p.String()), leaves >= 2, "blockgen:"+ver+":id-changes", "blockpath:"+labelShape(p))
	}
	rec.Extra("blockgen-mutations", uint64(checked))
	return nil
}

func TestBlockGen(t *testing.T)       { stats.Prop(t, drawBlock, checkBlockGen) }
func TestReplayBlockGen(t *testing.T) { stats.Replay(t, "TestBlockGen", checkBlockGen) }

// ------------------------------------------------------------------ v2 commitment

type CommitCase struct {
	Seed   uint64 `json:"seed"`
	State  Val    `json:"state"`
	Miner  string `json:"miner"`
	Txns   Val    `json:"txns"`
	V2Txns Val    `json:"v2txns"`
}

func drawCommit(t *rapid.T) CommitCase {
	o := genOpts()
	o.Fuel = 14
	var addr types.Address
	gen.FillSeed(addr[:], rapid.Uint64().Draw(t, "miner"))
	return CommitCase{Seed: rapid.Uint64().Draw(t, "seed"), State: live(gen.Of[consensus.State](t, gen.Opts{})), Miner: hex.EncodeToString(addr[:]),
		Txns: live(gen.Of[[]types.Transaction](t, o)), V2Txns: live(gen.Of[[]types.V2Transaction](t, o))}
}

func checkCommit(c CommitCase) error {
	rec := stats.G()
	sv, err := c.State.get(tState)
	if err != nil {
		return stats.Failf("", "harness: %v", err)
	}
	tv, err := c.Txns.get(tTxns)
	if err != nil {
		return stats.Failf("", "harness: %v", err)
	}
	t2v, err := c.V2Txns.get(tV2Txns)
	if err != nil {
		return stats.Failf("", "harness: %v", err)
	}
	var miner types.Address
	if b, err := hex.DecodeString(c.Miner); err != nil || len(b) != 32 {
		return stats.Failf("", "harness: miner address")
	} else {
		copy(miner[:], b)
	}
	commit := func(s, t, t2 reflect.Value, a types.Address) types.Hash256 {
		return s.Interface().(consensus.State).Commitment(a, t.Interface().([]types.Transaction), t2.Interface().([]types.V2Transaction))
	}
	base := commit(sv, tv, t2v, miner)
	if want := refCommitment(sv.Interface().(consensus.State), miner, tv.Interface().([]types.Transaction), t2v.Interface().([]types.V2Transaction)); base != want && !noRef {
		return stats.Failf("C12/commitment/layout", "State.Commitment = %v, reference recomputation gives %v\n state %s", base, want, short(sv))
	}
	seed := c.Seed
	fp := func(what string) uint64 { return stats.FP("commit", base[:], what) }
	// every encoded State field
	for _, p := range gen.Fields(sv) {
		ms := splitmix(&seed)
		if nt, _ := gen.NotTransmitted(stEntry, sv, p); nt {
			rec.Extra("state-not-transmitted-skipped", 1)
			continue
		}
		m := clone(sv)
		if err := gen.MutateAt(m, p, ms); err != nil {
			return stats.Failf("", "harness: mutate state at %s: %v", p, err)
		}
		if commit(m, tv, t2v, miner) == base {
			return stats.Failf("C12/commitment/state-unbound/"+keyShape(p.Shape()), "the v2 commitment does not change when the parent state's %s changes (commitment %v)\n before %s\n after  %s", p, base, short(sv), short(m))
		}
		rec.Case(fp(p.String()), true, "commitment:state-field", "statepath:"+p.Shape())
	}
	// the miner address
	for i := 0; i < 3; i++ {
		a := miner
		r := splitmix(&seed)
		a[r%32] ^= 1 << (r >> 8 % 8)
		if commit(sv, tv, t2v, a) == base {
			return stats.Failf("C12/commitment/miner-unbound", "the v2 commitment does not change with the miner address (%v -> %v, commitment %v)", miner, a, base)
		}
		rec.Case(fp(fmt.Sprintf("miner%d", r%256)), true, "commitment:miner-address")
	}
	// transactions: counts, order-insensitive single-field changes of the full encoding
	for which, lv := range []reflect.Value{tv, t2v} {
		for _, p := range samplePaths(gen.Fields(lv), 10, &seed) {
			ms := splitmix(&seed)
			if nt, _ := gen.NotTransmitted(txnEntry, lv, p); nt {
				continue
			}
			m := clone(lv)
			if err := gen.MutateAt(m, p, ms); err != nil {
				return stats.Failf("", "harness: mutate txns at %s: %v", p, err)
			}
			var got types.Hash256
			if which == 0 {
				got = commit(sv, m, t2v, miner)
			} else {
				got = commit(sv, tv, m, miner)
			}
			if got == base {
				return stats.Failf("C12/commitment/txn-unbound/"+keyShape(labelShape(p)), "the v2 commitment does not change when %s of the v%d transaction list changes\n before %s\n after  %s", p, which+1, short(lv), short(m))
			}
			rec.Case(fp(fmt.Sprintf("t%d:%s", which, p)), lv.Len() > 0, fmt.Sprintf("commitment:v%d-txn-field", which+1))
		}
	}
	return nil
}

func TestCommitment(t *testing.T)       { stats.Prop(t, drawCommit, checkCommit) }
func TestReplayCommitment(t *testing.T) { stats.Replay(t, "TestCommitment", checkCommit) }

// ------------------------------------------------------------------ simulator chains

type ChainCase struct {
	Seed  uint64        `json:"seed"`
	Chain sim.ChainCase `json:"chain"`
}

func drawChain(t *rapid.T) ChainCase {
	g := sim.GenChain(t, sim.GenOpts{
		Net:       sim.NetOpts{MaxForkHeight: rapid.SampledFrom([]int{6, 12, 25}).Draw(t, "forkSpan"), V2Only: rapid.IntRange(0, 3).Draw(t, "v2only") == 0},
		MinBlocks: 8, MaxBlocks: 28, Reorgs: false, Profile: sim.Profile{Contracts: 2, MaxTxns: 5},
	})
	c, err := g.Case.Normalize()
	if err != nil {
		panic(err)
	}
	return ChainCase{Seed: rapid.Uint64().Draw(t, "seed"), Chain: c}
}

func rejectClass(err error) string {
	s := err.Error()
	for _, k := range []string{"commitment", "payout", "height", "supplement", "weight", "overflow", "zero value", "work", "nonce", "signature"} {
		if strings.Contains(s, k) {
			return k
		}
	}
	return "other"
}

// fourEras is a network whose four replay-prefix eras are all populated, for the cross-era
// check of real signed transactions.
var fourEras = netOf([3]uint64{10, 20, 30})

func checkChainBlock(parent consensus.State, b types.Block, supp consensus.V1BlockSupplement, seed *uint64) error {
	rec := stats.G()
	id := b.ID()
	if want := gen.RefBlockID(b); id != want && !noRef {
		return stats.Failf("C12/block/id-layout", "Block.ID = %v, reference recomputation gives %v", id, want)
	}
	ver := "v1"
	if b.V2 != nil {
		ver = "v2"
		if len(b.MinerPayouts) != 1 {
			return stats.Failf("", "harness: accepted v2 block with %d payouts", len(b.MinerPayouts))
		}
		if want := refCommitment(parent, b.MinerPayouts[0].Address, b.Transactions, b.V2.Transactions); b.V2.Commitment != want && !noRef {
			return stats.Failf("C12/commitment/layout", "the commitment %v of an accepted v2 block at height %d differs from the reference recomputation %v (parent state, miner address, transactions)", b.V2.Commitment, b.V2.Height, want)
		}
		rec.Extra("sim-commitments-recomputed", 1)
	}
	fam := newFamily()
	fam.block(&b)
	if err := fam.err("block " + id.String()); err != nil {
		return err
	}
	rec.Extra("family-ids-compared", uint64(len(fam.byID)))

	// signature hashes of the real signatures, in the real parent state
	h := parent.Index.Height
	prefix := refPrefix(parent.Network, h)
	for ti := range b.Transactions {
		txn := b.Transactions[ti]
		for si, sg := range txn.Signatures {
			var got, want types.Hash256
			kind := "Partial"
			if sg.CoveredFields.WholeTransaction {
				kind = "Whole"
				got = parent.WholeSigHash(txn, sg.ParentID, sg.PublicKeyIndex, sg.Timelock, sg.CoveredFields.Signatures)
				want = refWholeSigHash(prefix, txn, sg.ParentID, sg.PublicKeyIndex, sg.Timelock, sg.CoveredFields.Signatures)
			} else {
				got = parent.PartialSigHash(txn, sg.CoveredFields)
				want = refPartialSigHash(prefix, txn, sg.CoveredFields)
			}
			if got != want && !noRef {
				return stats.Failf("C12/sighash/"+kind+"-layout", "height %d txn %d signature %d: %sSigHash = %v, reference recomputation (replay prefix %v) gives %v", h+1, ti, si, kind, got, prefix, want)
			}
			rec.Label("sim:sighash:" + kind + ":" + eraNames[era(parent.Network, h)])
		}
		if len(txn.SiacoinInputs)+len(txn.SiafundInputs) > 0 && len(txn.Signatures) > 0 {
			if _, _, err := checkV1SigHashes(fourEras, probeHeights([3]uint64{10, 20, 30}), txn, splitmix(seed)); err != nil {
				return err
			}
			rec.Label("sim:v1-cross-era")
		}
		if err := checkTxn(1, clone(reflect.ValueOf(txn)), splitmix(seed), 8, "sim"); err != nil {
			return err
		}
	}
	for ti := range b.V2Transactions() {
		txn := b.V2.Transactions[ti]
		n, err := checkV2SigHashes(parent, txn)
		if err != nil {
			return err
		}
		rec.LabelN("sim:sighash:v2", uint64(n))
		if err := checkTxn(2, clone(reflect.ValueOf(txn)), splitmix(seed), 8, "sim"); err != nil {
			return err
		}
	}

	// content mutations with the header kept: rejected, or the ID differs
	bv := clone(reflect.ValueOf(b))
	var paths []gen.Path
	for _, p := range gen.Fields(bv) {
		if isHeaderPath(p) {
			continue
		}
		if nt, _ := gen.NotTransmitted(txnEntry, bv, p); nt {
			continue
		}
		paths = append(paths, p)
	}
	nontrivial := len(b.Transactions)+len(b.V2Transactions()) > 0
	for _, p := range samplePaths(paths, stats.EnvInt("C12_CHAINPATHS", 10), seed) {
		m := clone(bv)
		if err := gen.MutateAt(m, p, splitmix(seed)); err != nil {
			return stats.Failf("", "harness: mutate block at %s: %v", p, err)
		}
		mb := m.Interface().(types.Block)
		if reflect.DeepEqual(mb, b) {
			return stats.Failf("", "harness: mutation at %s is a no-op", p)
		}
		if mb.ParentID != b.ParentID || mb.Nonce != b.Nonce || !mb.Timestamp.Equal(b.Timestamp) {
			return stats.Failf("", "harness: header field changed by %s", p)
		}
		verdict := "id-differs"
		if mb.ID() == id {
			// same ID: the block must not be accepted. The supplement is resized with the
			// transaction list so that a length mismatch is not what rejects the block.
			ms := supp
			ms.Transactions = append([]consensus.V1TransactionSupplement(nil), supp.Transactions...)
			for len(ms.Transactions) < len(mb.Transactions) {
				ms.Transactions = append(ms.Transactions, consensus.V1TransactionSupplement{})
			}
			ms.Transactions = ms.Transactions[:len(mb.Transactions)]
			var verr error
			if pv, _ := stats.NoPanic(func() { verr = consensus.ValidateBlock(parent, mb, ms) }); pv != nil {
				verdict = "same-id:validate-panicked(not accepted)"
			} else if verr == nil {
				return stats.Failf("C12/block/"+ver+"-content-unbound/"+keyShape(labelShape(p)), "%s block at height %d: after changing %s (header fields kept) the block keeps its ID %v and ValidateBlock ACCEPTS it\n before %s\n after  %s",
					ver, h+1, p, id, short(bv), short(m))
			} else {
				verdict = "same-id:rejected:" + rejectClass(verr)
			}
		}
		rec.Case(stats.FP("chainblock", id[:], p.String()), nontrivial, "sim:block:"+ver+":"+verdict, "blockpath:"+labelShape(p))
	}
	return nil
}

func checkChain(c ChainCase) error {
	rec := stats.G()
	seed := c.Seed
	blocks := 0
	hooks := sim.Hooks{
		BeforeApply: func(ch *sim.Chain, st *sim.Step) error {
			blocks++
			return checkChainBlock(ch.Tip(), *st.Block, *st.Supp, &seed)
		},
	}
	if _, err := sim.Replay(c.Chain, hooks); err != nil {
		var f *stats.Failure
		errors.As(err, &f)
		if f != nil {
			return &stats.Failure{Key: f.Key, Msg: err.Error()}
		}
		return stats.Failf("C12/replay", "%v", err)
	}
	rec.Extra("chains", 1)
	rec.Extra("chain-blocks", uint64(blocks))
	return nil
}

func TestChain(t *testing.T)       { stats.Prop(t, drawChain, checkChain) }
func TestReplayChain(t *testing.T) { stats.Replay(t, "TestChain", checkChain) }
