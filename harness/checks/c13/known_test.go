package c13

import (
	"fmt"
	"testing"
	"time"

	"go.sia.tech/core/consensus"
	"go.sia.tech/core/types"
	"verif/harness/stats"
)

// TestKnown: minimal reproduction of the one defect C13 found on the pinned tree.
//
// State.medianTimestamp computes the even-count median as l.Add(r.Sub(l)/2). time.Time.Sub
// saturates at ~292 years, so when the two middle timestamps are further apart the "median"
// is l+146 years instead of the midpoint, and ValidateHeader accepts headers that are older
// than the median of the previous timestamps (chains shorter than 11 blocks with an even
// number of blocks only). Far-future timestamps are inside the property's quantifier.
func TestKnown(t *testing.T) {
	stats.ProbeKnown(t, keyMedianSat,
		"ValidateHeader accepts a timestamp older than the median when the two middle previous timestamps are more than ~292 years apart (time.Duration saturation in medianTimestamp; chains of 2,4,..,10 blocks)",
		func() error {
			n := NetCfg{IntervalS: 600, InitTarget: hexOf(maxT), ASICOakTarget: hexOf(maxT), NonceFactor: 1,
				Oak: 10, OakFix: 10, ASIC: 10, Foundation: 10, Allow: 10, Require: 10, FinalCut: 10}
			net := n.network(0)
			far := int64(1) << 62
			s := consensus.ApplyHeader(net.GenesisState(), types.BlockHeader{Timestamp: time.Unix(0, 0)}, time.Time{})
			s = consensus.ApplyHeader(s, types.BlockHeader{ParentID: s.Index.ID, Timestamp: time.Unix(far, 0)}, time.Unix(0, 0))
			// previous timestamps {0, 2^62}: median 2^61. One second older must be rejected.
			h := types.BlockHeader{ParentID: s.Index.ID, Timestamp: time.Unix(far/2-1, 0)}
			if err := consensus.ValidateHeader(s, h); err == nil {
				return fmt.Errorf("previous timestamps {0, 2^62}, median 2^61: header with timestamp 2^61-1 accepted (a header with timestamp %d, 146 years after 0, is the oldest one rejected)", int64(^uint64(0)>>1)/2/int64(time.Second))
			}
			return nil
		})
}
