package c13

import (
	"encoding/hex"
	"math/big"
	"sort"
	"testing"

	"pgregory.net/rapid"
	"verif/harness/stats"
)

// ---- targets ---------------------------------------------------------------------------------------

func hexOf(x *big.Int) string {
	var b [32]byte
	x.FillBytes(b[:])
	return hex.EncodeToString(b[:])
}

// drawTarget draws a target in (2^160, 2^256-1]: every bit length equally likely, with the
// cap neighbourhood (2^254, 2^255±1, 2^256-1) always in the mix.
func drawTarget(t *rapid.T, label string) string {
	switch rapid.IntRange(0, 9).Draw(t, label+"-kind") {
	case 0:
		return hexOf(maxT)
	case 1:
		e := rapid.SampledFrom([]uint{254, 255}).Draw(t, label+"-e")
		d := rapid.Int64Range(-2, 2).Draw(t, label+"-d")
		return hexOf(new(big.Int).Add(new(big.Int).Lsh(bigOne, e), big.NewInt(d)))
	default:
		bl := rapid.IntRange(162, 256).Draw(t, label+"-bits")
		x := new(big.Int)
		for i := 0; i < 4; i++ {
			x.Lsh(x, 64).Or(x, new(big.Int).SetUint64(rapid.Uint64().Draw(t, label+"-w")))
		}
		x.SetBit(x, 255, 1)
		x.Rsh(x, uint(256-bl))
		return hexOf(x)
	}
}

// drawEasyTarget draws targets for which proof of work is a handful of hashes (or, in the
// "tiny" class, unreachable so that only the rejecting side is exercised).
func drawEasyTarget(t *rapid.T, label string) string {
	switch rapid.IntRange(0, 9).Draw(t, label+"-kind") {
	case 0, 1, 2:
		return hexOf(maxT)
	case 3, 4, 5, 6:
		k := rapid.Int64Range(2, 40).Draw(t, label+"-k")
		return hexOf(new(big.Int).Quo(maxT, big.NewInt(k)))
	case 7, 8:
		x := new(big.Int)
		for i := 0; i < 4; i++ {
			x.Lsh(x, 64).Or(x, new(big.Int).SetUint64(rapid.Uint64().Draw(t, label+"-w")))
		}
		x.SetBit(x, 255-rapid.IntRange(0, 5).Draw(t, label+"-s"), 1)
		return hexOf(x)
	default:
		return hexOf(new(big.Int).Lsh(bigOne, uint(rapid.IntRange(161, 240).Draw(t, label+"-tiny"))))
	}
}

// ---- networks --------------------------------------------------------------------------------------

// drawForks draws the seven ordered fork heights in [0, hi].
func drawForks(t *rapid.T, hi uint64) [7]uint64 {
	var f [7]uint64
	switch rapid.IntRange(0, 7).Draw(t, "fork-shape") {
	case 0: // all at one height (frequently 0)
		h := uint64(0)
		if rapid.Bool().Draw(t, "fork-nonzero") {
			h = rapid.Uint64Range(0, hi).Draw(t, "fork-h")
		}
		for i := range f {
			f[i] = h
		}
	case 1: // consecutive heights, like the repo's testnet()
		h := rapid.Uint64Range(0, hi-min(hi, 7)).Draw(t, "fork-h")
		for i := range f {
			f[i] = h + uint64(i)
		}
	case 2: // pre-Oak window visible: Oak in [500, 500+..], the rest after it
		if hi >= 520 {
			f[0] = rapid.Uint64Range(500, hi).Draw(t, "fork-oak")
			for i := 1; i < 7; i++ {
				f[i] = rapid.Uint64Range(f[0], hi).Draw(t, "fork-h")
			}
			break
		}
		fallthrough
	default:
		for i := range f {
			f[i] = rapid.Uint64Range(0, hi).Draw(t, "fork-h")
		}
		if rapid.IntRange(0, 3).Draw(t, "fork-tie") == 0 { // force a tie between two neighbours
			k := rapid.IntRange(0, 5).Draw(t, "fork-tie-at")
			f[k+1] = f[k]
		}
	}
	sort.Slice(f[:], func(i, j int) bool { return f[i] < f[j] })
	return f
}

func drawNet(t *rapid.T, hi uint64, easy bool) NetCfg {
	f := drawForks(t, hi)
	n := NetCfg{Oak: f[0], OakFix: f[1], ASIC: f[2], Foundation: f[3], Allow: f[4], Require: f[5], FinalCut: f[6]}
	if easy {
		n.IntervalS = rapid.SampledFrom([]int64{1, 2, 3, 5, 10, 60, 600}).Draw(t, "interval")
		n.InitTarget = drawEasyTarget(t, "init")
		n.ASICOakTarget = drawEasyTarget(t, "asic-target")
		n.ASICOakTimeS = rapid.Int64Range(0, 2000).Draw(t, "asic-oaktime")
	} else {
		switch rapid.IntRange(0, 3).Draw(t, "interval-kind") {
		case 0:
			n.IntervalS = rapid.SampledFrom([]int64{1, 2, 3, 4, 600, 3599, 3600}).Draw(t, "interval")
		default:
			n.IntervalS = rapid.Int64Range(1, 3600).Draw(t, "interval")
		}
		n.InitTarget = drawTarget(t, "init")
		n.ASICOakTarget = drawTarget(t, "asic-target")
		switch rapid.IntRange(0, 3).Draw(t, "asic-oaktime-kind") {
		case 0:
			n.ASICOakTimeS = rapid.SampledFrom([]int64{0, 1, 2, 120000, 100_000_000}).Draw(t, "asic-oaktime")
		default:
			n.ASICOakTimeS = rapid.Int64Range(0, 100_000_000).Draw(t, "asic-oaktime") >> uint(rapid.IntRange(0, 26).Draw(t, "asic-oaktime-shift"))
		}
	}
	n.NonceFactor = rapid.SampledFrom([]uint64{1, 2, 3, 7, 1009, 1009, 65537}).Draw(t, "nonce-factor")
	if rapid.IntRange(0, 3).Draw(t, "oak-genesis-off-kind") == 0 {
		n.OakGenesisOff = rapid.Int64Range(-1_000_000, 1_000_000).Draw(t, "oak-genesis-off")
	}
	return n
}

// ---- timestamp profiles -----------------------------------------------------------------------------

var profiles = []string{"schedule", "min", "const", "fast", "slow", "jitter", "bursty", "farfuture", "farfuture-sustained", "sawtooth", "mixed", "mixed"}

func drawFar(t *rapid.T) int64 {
	switch rapid.IntRange(0, 3).Draw(t, "far-kind") {
	case 0:
		return maxTS
	case 1:
		return int64(1) << uint(rapid.IntRange(33, 62).Draw(t, "far-exp"))
	default:
		return rapid.Int64Range(1<<33, maxTS).Draw(t, "far")
	}
}

// segment appends k steps of one elementary kind.
func segment(t *rapid.T, steps [][2]int64, kind string, k int, iv int64) [][2]int64 {
	switch kind {
	case "schedule":
		for i := 0; i < k; i++ {
			steps = append(steps, [2]int64{0, 0})
		}
	case "min":
		for i := 0; i < k; i++ {
			steps = append(steps, [2]int64{1, 0})
		}
	case "const":
		for i := 0; i < k; i++ {
			steps = append(steps, [2]int64{2, 0})
		}
	case "fast":
		d := iv/rapid.Int64Range(2, 20).Draw(t, "fast-div") - iv
		for i := 0; i < k; i++ {
			steps = append(steps, [2]int64{0, d})
		}
	case "slow":
		d := iv * rapid.Int64Range(1, 20).Draw(t, "slow-mul")
		for i := 0; i < k; i++ {
			steps = append(steps, [2]int64{0, d})
		}
	case "jitter":
		w := iv * rapid.Int64Range(1, 4).Draw(t, "jitter-width")
		for i := 0; i < k; i++ {
			steps = append(steps, [2]int64{0, rapid.Int64Range(-w, w).Draw(t, "jitter")})
		}
	case "far":
		steps = append(steps, [2]int64{3, drawFar(t)})
		for i := 1; i < k; i++ {
			steps = append(steps, [2]int64{1, 0})
		}
	case "far-sustained":
		far := drawFar(t)
		for i := 0; i < k; i++ {
			steps = append(steps, [2]int64{3, far})
		}
	}
	return steps
}

func drawSteps(t *rapid.T, profile string, n int, iv int64) [][2]int64 {
	steps := make([][2]int64, 0, n)
	switch profile {
	case "schedule", "min", "const", "fast", "slow", "jitter":
		steps = segment(t, steps, profile, n, iv)
	case "bursty": // a burst of blocks with one timestamp, then a gap that pays the schedule back (or not)
		for len(steps) < n {
			b := rapid.IntRange(1, 60).Draw(t, "burst-len")
			steps = segment(t, steps, "const", b, iv)
			gap := iv * int64(b) * rapid.Int64Range(0, 3).Draw(t, "gap-mul")
			steps = append(steps, [2]int64{0, gap})
		}
	case "sawtooth": // one step forward, then decreasing as far as the rule allows
		for len(steps) < n {
			steps = append(steps, [2]int64{0, iv * rapid.Int64Range(1, 200).Draw(t, "tooth")})
			steps = segment(t, steps, "min", rapid.IntRange(1, 12).Draw(t, "tooth-len"), iv)
		}
	case "farfuture": // base profile with isolated far-future timestamps followed by the minimum allowed
		base := rapid.SampledFrom([]string{"schedule", "min", "jitter"}).Draw(t, "far-base")
		for len(steps) < n {
			steps = segment(t, steps, base, rapid.IntRange(0, max(1, n/3)).Draw(t, "far-gap"), iv)
			steps = segment(t, steps, "far", rapid.IntRange(1, 14).Draw(t, "far-len"), iv)
		}
	case "farfuture-sustained": // enough far-future timestamps that the median itself jumps
		pre := rapid.IntRange(0, n).Draw(t, "far-at")
		steps = segment(t, steps, rapid.SampledFrom([]string{"schedule", "min", "fast"}).Draw(t, "far-base"), pre, iv)
		steps = segment(t, steps, "far-sustained", rapid.IntRange(5, 13).Draw(t, "far-len"), iv)
		steps = segment(t, steps, rapid.SampledFrom([]string{"schedule", "min", "const", "fast"}).Draw(t, "far-tail"), max(0, n-len(steps)), iv)
	default: // mixed
		kinds := []string{"schedule", "min", "const", "fast", "slow", "jitter", "far", "far-sustained"}
		for len(steps) < n {
			k := rapid.SampledFrom(kinds[:6+2*rapid.IntRange(0, 1).Draw(t, "mixed-far")]).Draw(t, "seg-kind")
			steps = segment(t, steps, k, rapid.IntRange(1, max(2, n/4)).Draw(t, "seg-len"), iv)
		}
	}
	if len(steps) > n {
		steps = steps[:n]
	}
	return steps
}

// ---- entries ------------------------------------------------------------------------------------------

// drawHistory: long header histories; fork heights up to ~600 (1100/1600 in a minority so
// that the 1000-block ancestor and the second/third pre-Oak windows are reached).
func drawHistory(t *rapid.T) HistCase {
	maxLen := stats.EnvInt("VERIF_C13_MAXLEN", 1500)
	var hi uint64
	switch rapid.IntRange(0, 9).Draw(t, "fork-range") {
	case 0, 1:
		hi = 30
	case 2, 3:
		hi = 200
	case 4, 5, 6, 7:
		hi = 620
	default:
		hi = uint64(maxLen) - 380
	}
	c := HistCase{Net: drawNet(t, hi, false)}
	c.Genesis = rapid.Int64Range(0, 1<<33).Draw(t, "genesis")
	n := int(c.Net.FinalCut) + rapid.IntRange(5, 300).Draw(t, "tail")
	if n > maxLen {
		n = maxLen
	}
	c.Profile = rapid.SampledFrom(profiles).Draw(t, "profile")
	c.Steps = drawSteps(t, c.Profile, n, c.Net.IntervalS)
	c.Blocks = rapid.IntRange(0, 2).Draw(t, "blocks") == 0
	c.Seed = rapid.Uint64().Draw(t, "seed")
	if rapid.IntRange(0, 7).Draw(t, "subsecond") == 0 {
		// sub-second timestamps, strictly increasing: bursts of blocks a few hundred milliseconds apart and slower stretches
		c.Profile = "subsecond-increasing"
		fast := rapid.Bool().Draw(t, "subFast")
		for range c.Steps {
			hi := 3000
			if fast {
				hi = 900
			}
			c.SubMs = append(c.SubMs, int32(rapid.IntRange(1, hi).Draw(t, "subMs")))
		}
	}
	return c
}

// drawValidate: short chains on era-compressed networks with easy targets; every height is probed.
func drawValidate(t *rapid.T) HistCase {
	c := HistCase{Net: drawNet(t, rapid.SampledFrom([]uint64{8, 14, 30}).Draw(t, "fork-range"), true), Probes: true}
	c.Genesis = rapid.Int64Range(0, 1<<33).Draw(t, "genesis")
	n := int(c.Net.FinalCut) + rapid.IntRange(3, 25).Draw(t, "tail")
	c.Profile = rapid.SampledFrom(profiles).Draw(t, "profile")
	c.Steps = drawSteps(t, c.Profile, n, c.Net.IntervalS)
	c.Blocks = rapid.Bool().Draw(t, "blocks")
	c.Seed = rapid.Uint64().Draw(t, "seed")
	return c
}

func drawWork(t *rapid.T, label string) *big.Int {
	bl := rapid.IntRange(0, 249).Draw(t, label+"-bits")
	x := new(big.Int)
	for i := 0; i < 4; i++ {
		x.Lsh(x, 64).Or(x, new(big.Int).SetUint64(rapid.Uint64().Draw(t, label+"-w")))
	}
	return x.Rsh(x, uint(256-bl))
}

func drawHeavy(t *rapid.T) HeavyCase {
	atw, ad, bd := drawWork(t, "atw"), drawWork(t, "ad"), drawWork(t, "bd")
	switch rapid.IntRange(0, 3).Draw(t, "d-kind") {
	case 0:
		ad = big.NewInt(rapid.Int64Range(1, 12).Draw(t, "ad-small"))
	case 1:
		bd = new(big.Int).Set(ad)
	}
	if rapid.Bool().Draw(t, "bd-small") {
		bd = big.NewInt(rapid.Int64Range(1, 12).Draw(t, "bd-small-v"))
	}
	var btw *big.Int
	switch rapid.IntRange(0, 4).Draw(t, "btw-kind") {
	case 0:
		btw = drawWork(t, "btw")
	case 1:
		btw = new(big.Int).Set(atw)
	default: // neighbourhood of the threshold, either direction
		d := ad
		if rapid.Bool().Draw(t, "use-bd") {
			d = bd
		}
		off := new(big.Int).Quo(d, big.NewInt(5))
		off.Add(off, big.NewInt(rapid.Int64Range(-2, 2).Draw(t, "off")))
		if rapid.Bool().Draw(t, "neg") {
			off.Neg(off)
		}
		btw = new(big.Int).Add(atw, off)
		if btw.Sign() < 0 {
			btw.SetInt64(0)
		}
	}
	if btw.BitLen() > 250 {
		btw.Rsh(btw, 8)
	}
	return HeavyCase{ATW: atw.String(), AD: ad.String(), BTW: btw.String(), BD: bd.String()}
}

func TestHistory(t *testing.T)  { stats.Prop(t, drawHistory, checkHistory) }
func TestValidate(t *testing.T) { stats.Prop(t, drawValidate, checkHistory) }
func TestHeavier(t *testing.T)  { stats.Prop(t, drawHeavy, checkHeavier) }

func TestReplayHistory(t *testing.T)  { stats.Replay(t, "TestHistory", checkHistory) }
func TestReplayValidate(t *testing.T) { stats.Replay(t, "TestValidate", checkHistory) }
func TestReplayHeavier(t *testing.T)  { stats.Replay(t, "TestHeavier", checkHeavier) }
