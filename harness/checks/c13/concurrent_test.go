package c13

import (
	"testing"

	"verif/harness/stats"
)

// Header application and work arithmetic from several goroutines at once (each on its own history) give what they give
// alone: see stats.PropConc.
func TestConcurrentHeavier(t *testing.T)  { stats.PropConc(t, drawHeavy, checkHeavier, 6, 20) }
func TestConcurrentValidate(t *testing.T) { stats.PropConc(t, drawValidate, checkHistory, 4, 2) }

func TestReplayConcurrentHeavier(t *testing.T) {
	stats.Replay(t, "TestConcurrentHeavier", checkHeavier)
}
func TestReplayConcurrentValidate(t *testing.T) {
	stats.Replay(t, "TestConcurrentValidate", checkHistory)
}
