// C13 — Difficulty retargeting is total, clamped, identical for headers and full blocks.
//
// One pure checker (checkHistory) walks a generated header history on a generated
// network through consensus.ApplyHeader (and, in parallel, consensus.ApplyBlock on
// empty blocks) and asserts, after every header, the era rule of DESIGN.md Appendix D
// on math/big: clamp of the era, never zero, cumulative work monotone (strict from
// AllowHeight), floored-inverse relation of (ChildTarget,Difficulty), (Depth,TotalWork),
// (OakTarget,OakWork) in the era's direction, PoWTarget(), deprecated fields zeroed from
// FinalCutHeight, header-only state == full-block state on every proof-of-work field,
// PrevTimestamps == the generated history, SufficientlyHeavierThan asymmetric, and
// ValidateHeader(s, h) == nil  <=>  reference predicate (parent, timestamp >= own
// median of own history, nonce % factor, ID <= own target).  With Probes set, every
// height additionally gets headers mutated one condition at a time and honestly
// re-sealed.  checkHeavier does asymmetry on synthetic (TotalWork, Difficulty) pairs.
//
// The oracle never calls adjust*/update*/medianTimestamp/PoWTarget/NonceFactor to obtain an
// expected value; Work values are read through Work.String() into math/big.
//
// One defect was found on the pinned tree (see known_test.go): medianTimestamp saturates
// time.Duration for an even number (< 11) of previous timestamps whose middle pair is more
// than ~292 years apart, so ValidateHeader accepts headers older than the true median.
//
// SENSITIVITY (./run C13 quick, seed 1, via tools/with_mutant.sh; seconds = whole command incl.
// worktree + build (~10 s) and up to 20 s of shrinking). file:line of the pinned tree.
//
//	 #   mutant                                                             result     s   first failing key
//	M01  application.go:238 pre-Oak clamp 25/10 -> 35/10                    killed    44   clamp/preoak-window
//	M02  application.go:227 pre-Oak window 500 -> 250 blocks                killed    39   clamp/preoak
//	M03  application.go:283 Oak clamp 1004 -> 1008                          killed    26   clamp/oak
//	M04  application.go:287 Oak upper clamp dropped                         killed    15   clamp/oak
//	M38  application.go:285 Oak lower clamp dropped                         killed    64   clamp/oak
//	M33  application.go:280 ASIC reset applied one block late               killed    34   clamp/oak
//	M05  application.go:312 v2 clamp D/250 -> D/200                         killed    24   clamp/v2
//	M06  application.go:352 FinalCut ".max(oneWork)" dropped (D may be 0)   killed    10   apply-header/panic (Work.sub underflow on the next header)
//	M08  application.go:187 v2 total work not incremented                   killed     8   totalwork
//	M09  application.go:393 zeroing of deprecated fields ">=" -> ">"        killed    10   zeroing
//	M10  application.go:218 v2 OakTarget not recomputed from OakWork        killed    22   inverse/oak
//	M11  application.go:357 adjustDifficulty Allow switch "<" -> "<="       killed    13   inverse/child
//	M13  application.go:183 updateTotalWork Allow switch "<" -> "<="        killed    10   inverse/total
//	M14  application.go:834 ApplyBlock ignores the ancestor timestamp       killed    55   header-vs-block
//	M15  application.go:390 PrevTimestamps shifted by two                   killed    22   prev-timestamps
//	M18  application.go:150 invTarget divides 2^256 instead of 2^256-1      killed    15   apply-header/panic
//	M31  application.go:89  Work.sub loses the borrow                       killed    83   clamp/finalcut, clamp/v2
//	M37  application.go:74  Work.add loses the carry                        killed    53   heavier/asymmetry, totalwork
//	M20  state.go:237 SufficientlyHeavierThan ">" -> ">="                   killed     5   heavier/asymmetry
//	M22  state.go:256 PoWTarget FinalCut switch "<" -> "<="                 killed    21   powtarget
//	M23  state.go:301 NonceFactor ASIC switch "<" -> "<="                   killed    25   noncefactor
//	M24  state.go:201 median parity test inverted                           killed    12   validate-header/panic
//	M25  state.go:205 even median l+(r-l)/4                                 killed    55   validate-header/timestamp-min-1
//	M35  state.go:191 numTimestamps bound 11 -> 10                          killed    36   validate-header/timestamp-min-1
//	M27  validation.go:19 parent check dropped                              killed    35   validate-header/parent-bitflip
//	M28  validation.go:21 timestamp equal to the median rejected            killed    13   validate-header/base
//	M29  validation.go:23 nonce-factor check dropped                        killed    19   validate-header/base
//	M30  validation.go:25 target taken from ChildTarget, not PoWTarget()    killed    14   validate-header/base
//	M16  application.go:199 OakTime decay 995 -> 990                        survived  55   -
//	M34  application.go:249 Oak FixHeight switch "<" -> "<="                survived  62   -
//	M36  application.go:360 FinalCut algorithm switch "<" -> "<="           survived  63   -
//
// The three survivors change the estimate *inside* the clamp of their era; the property bounds
// the change and does not pin the estimator, so they are not violations (stated blind spot).
package c13

import (
	"bytes"
	"encoding/binary"
	"encoding/hex"
	"fmt"
	"math/big"
	"sort"
	"testing"
	"time"

	"go.sia.tech/core/consensus"
	"go.sia.tech/core/types"
	"verif/harness/stats"
)

func TestMain(m *testing.M) { stats.Main(m) }

// ---- big-integer reference helpers ---------------------------------------------------------

var (
	maxT   = new(big.Int).Sub(new(big.Int).Lsh(big.NewInt(1), 256), big.NewInt(1)) // 2^256-1
	bigOne = big.NewInt(1)
)

func b32(b [32]byte) *big.Int { return new(big.Int).SetBytes(b[:]) }

func wk(w consensus.Work) *big.Int {
	v, ok := new(big.Int).SetString(w.String(), 10)
	if !ok {
		panic("harness: Work.String is not decimal: " + w.String())
	}
	return v
}

// inv is the floored inverse ⌊(2^256−1)/x⌋, x > 0.
func inv(x *big.Int) *big.Int { return new(big.Int).Quo(maxT, x) }

// capT is the library's target cap: any value of 256 bits (>= 2^255) is stored as 2^256−1.
// (intToTarget tests BitLen() >= 256; DESIGN Appendix D allows "the max-target cap".)
func capT(x *big.Int) *big.Int {
	if x.BitLen() >= 256 {
		return maxT
	}
	return x
}

// frac is ⌊x·n/d⌋ without the cap.
func frac(x *big.Int, n, d int64) *big.Int {
	r := new(big.Int).Mul(x, big.NewInt(n))
	return r.Quo(r, big.NewInt(d))
}

func toID(x *big.Int) (id types.BlockID) {
	x.FillBytes(id[:])
	return
}

// ---- case types -------------------------------------------------------------------------------

// NetCfg is the part of consensus.Network that proof-of-work depends on.
type NetCfg struct {
	IntervalS     int64  `json:"interval_s"`
	InitTarget    string `json:"init_target"` // 32 bytes hex, big-endian
	Oak           uint64 `json:"oak"`
	OakFix        uint64 `json:"oak_fix"`
	ASIC          uint64 `json:"asic"`
	Foundation    uint64 `json:"foundation"`
	Allow         uint64 `json:"allow"`
	Require       uint64 `json:"require"`
	FinalCut      uint64 `json:"final_cut"`
	OakGenesisOff int64  `json:"oak_genesis_off"` // HardforkOak.GenesisTimestamp = genesis timestamp + off
	ASICOakTimeS  int64  `json:"asic_oak_time_s"`
	ASICOakTarget string `json:"asic_oak_target"`
	NonceFactor   uint64 `json:"nonce_factor"`
}

// HistCase is one history. Header i (height i) for i >= 1 takes its timestamp from Steps[i-1]:
//
//	{0, d}: parent timestamp + interval + d      {1, d}: minimum allowed (median) + d
//	{2, _}: parent timestamp                     {3, d}: absolute d
//
// always raised to the minimum the median rule allows and capped at 2^62, so every case
// is a permitted sequence by construction. Nonces, commitments and the v1/v2 block form
// between Allow and Require are pure functions of (Seed, height).
type HistCase struct {
	Net     NetCfg     `json:"net"`
	Genesis int64      `json:"genesis"`
	Profile string     `json:"profile"`
	Steps   [][2]int64 `json:"steps"`
	Blocks  bool       `json:"blocks"` // also run ApplyBlock on empty blocks and compare
	Probes  bool       `json:"probes"` // ValidateHeader on one-condition mutants at every height
	Seed    uint64     `json:"seed"`
	// SubMs, when it has one entry per step, replaces the timestamp profile: every timestamp is SubMs[i] milliseconds
	// (1..3000) after the previous one, i.e. the chain carries sub-second timestamps (a miner stamping time.Now()) that
	// strictly increase, which header validation always permits. Only used without Probes.
	SubMs []int32 `json:"sub_ms,omitempty"`
}

const (
	maxTS   = int64(1) << 62
	maxStep = int64(1) << 61
)

func hexID(s string) (id types.BlockID, err error) {
	b, err := hex.DecodeString(s)
	if err != nil || len(b) != 32 {
		return id, fmt.Errorf("bad 32-byte hex %q", s)
	}
	copy(id[:], b)
	return id, nil
}

// valid states the configuration domain (DESIGN §4.1 and C13 FA).
func (n NetCfg) valid() error {
	hs := []uint64{n.Oak, n.OakFix, n.ASIC, n.Foundation, n.Allow, n.Require, n.FinalCut}
	for i := 1; i < len(hs); i++ {
		if hs[i] < hs[i-1] {
			return fmt.Errorf("fork heights not chronological: %v", hs)
		}
	}
	if n.IntervalS < 1 || n.IntervalS > 3600 || n.NonceFactor < 1 || n.ASICOakTimeS < 0 || n.ASICOakTimeS > 100_000_000 {
		return fmt.Errorf("interval/nonce factor/oak time outside the domain")
	}
	for _, s := range []string{n.InitTarget, n.ASICOakTarget} {
		id, err := hexID(s)
		if err != nil {
			return err
		}
		if b32(id).BitLen() <= 160 {
			return fmt.Errorf("target below 2^160 (outside the overflow-free domain)")
		}
	}
	return nil
}

var (
	minerAddr = types.Address{1, 3, 1, 3}
	foundAddr = types.Address{0xf0, 0x0d}
)

func (n NetCfg) network(genesis int64) *consensus.Network {
	net := &consensus.Network{
		Name:            "c13",
		InitialCoinbase: types.Siacoins(300000),
		MinimumCoinbase: types.Siacoins(30000),
		BlockInterval:   time.Duration(n.IntervalS) * time.Second,
		MaturityDelay:   3,
	}
	net.InitialTarget, _ = hexID(n.InitTarget)
	net.HardforkDevAddr.Height = 0
	net.HardforkTax.Height = 0
	net.HardforkStorageProof.Height = 0
	net.HardforkOak.Height = n.Oak
	net.HardforkOak.FixHeight = n.OakFix
	net.HardforkOak.GenesisTimestamp = time.Unix(genesis+n.OakGenesisOff, 0)
	net.HardforkASIC.Height = n.ASIC
	net.HardforkASIC.OakTime = time.Duration(n.ASICOakTimeS) * time.Second
	net.HardforkASIC.OakTarget, _ = hexID(n.ASICOakTarget)
	net.HardforkASIC.NonceFactor = n.NonceFactor
	net.HardforkFoundation.Height = n.Foundation
	net.HardforkFoundation.PrimaryAddress = foundAddr
	net.HardforkFoundation.FailsafeAddress = types.VoidAddress
	net.HardforkV2.AllowHeight = n.Allow
	net.HardforkV2.RequireHeight = n.Require
	net.HardforkV2.FinalCutHeight = n.FinalCut
	net.HardforkV2.EphemeralOutputHeight = n.Allow
	return net
}

// ---- reference: median rule ------------------------------------------------------------------

// window returns the last min(len, 11) timestamps of hist, sorted ascending.
func window(hist []int64) []int64 {
	n := len(hist)
	if n > 11 {
		n = 11
	}
	w := append([]int64(nil), hist[len(hist)-n:]...)
	sort.Slice(w, func(i, j int) bool { return w[i] < w[j] })
	return w
}

// minAllowed is the smallest whole-second timestamp that is not older than the median of
// the previous (up to) eleven timestamps: the middle element, or for an even count the
// mean of the two middle elements (rounded up to a whole second, since 2t >= l+r).
func minAllowed(hist []int64) int64 {
	w := window(hist)
	n := len(w)
	if n%2 == 1 {
		return w[n/2]
	}
	l, r := w[n/2-1], w[n/2]
	return l + (r-l+1)/2 // 0 <= l <= r <= 2^62: no overflow
}

// maxDurS is the largest difference in whole seconds that time.Time.Sub represents exactly.
const maxDurS = int64(^uint64(0)>>1) / int64(time.Second)

// medianSaturates reports whether the even-count median is taken over two timestamps more
// than ~292 years apart (time.Duration saturates there).
func medianSaturates(hist []int64) bool {
	w := window(hist)
	n := len(w)
	return n%2 == 0 && w[n/2]-w[n/2-1] > maxDurS
}

func nextTS(hist []int64, interval int64, st [2]int64) int64 {
	parent := hist[len(hist)-1]
	lo := minAllowed(hist)
	d := st[1]
	if d > maxStep {
		d = maxStep
	} else if d < -maxStep {
		d = -maxStep
	}
	var cand int64
	switch st[0] {
	case 0:
		cand = parent + interval + d
	case 1:
		if d < 0 {
			d = 0
		}
		cand = lo + d
	case 2:
		cand = parent
	default:
		cand = st[1]
	}
	if cand < lo {
		cand = lo
	}
	if cand > maxTS {
		cand = maxTS
	}
	return cand
}

// ---- deterministic derivations from the case seed ----------------------------------------------

func mix(xs ...uint64) uint64 {
	z := uint64(0x9E3779B97F4A7C15)
	for _, x := range xs {
		z += x*0xBF58476D1CE4E5B9 + 0x9E3779B97F4A7C15
		z ^= z >> 30
		z *= 0xBF58476D1CE4E5B9
		z ^= z >> 27
		z *= 0x94D049BB133111EB
		z ^= z >> 31
	}
	return z
}

func mixHash(seed, i uint64) (h types.Hash256) {
	for k := 0; k < 4; k++ {
		binary.LittleEndian.PutUint64(h[8*k:], mix(seed, i, uint64(k)+100))
	}
	return
}

// ---- the state as the oracle sees it ---------------------------------------------------------------

type view struct {
	T, Depth, OakT *big.Int // ChildTarget, Depth, OakTarget
	D, TW, OakW    *big.Int // Difficulty, TotalWork, OakWork
}

func viewOf(s consensus.State) view {
	return view{b32(s.ChildTarget), b32(s.Depth), b32(s.OakTarget), wk(s.Difficulty), wk(s.TotalWork), wk(s.OakWork)}
}

// refTarget is the proof-of-work target a child at height c must meet, from recorded fields.
func refTarget(n *NetCfg, v view, c uint64) *big.Int {
	if c < n.FinalCut {
		return v.T
	}
	return inv(v.D)
}

func refFactor(n *NetCfg, c uint64) uint64 {
	if c < n.ASIC {
		return 1
	}
	return n.NonceFactor
}

type tally struct {
	eras    map[string]int
	binds   int
	caps    int
	accepts int
	rejects int
	single  [4][2]int // per condition: probes where it is the only failing one {count, agreed}
	sealed  int
	unseal  int
}

func era(n *NetCfg, c uint64) string {
	switch {
	case c < n.Allow && c <= n.Oak:
		if c%500 == 0 {
			return "preoak-window"
		}
		return "preoak"
	case c < n.Allow && c == n.ASIC:
		return "asic-reset"
	case c < n.Allow:
		return "oak"
	case c < n.FinalCut:
		return "v2"
	default:
		return "finalcut"
	}
}

func invRel(pre bool, target, work *big.Int, name string, c uint64) error {
	if pre {
		if target.Sign() == 0 {
			return stats.Failf("C13/zero/"+name, "height %d: %s target is zero before v2", c, name)
		}
		if work.Cmp(inv(target)) != 0 {
			return stats.Failf("C13/inverse/"+name, "height %d (pre-v2): %s work %s != floor(max/target) = %s (target %s)", c, name, work, inv(target), target)
		}
		return nil
	}
	if work.Sign() == 0 {
		return stats.Failf("C13/zero/"+name, "height %d: %s work is zero", c, name)
	}
	if target.Cmp(inv(work)) != 0 {
		return stats.Failf("C13/inverse/"+name, "height %d (v2): %s target %s != floor(max/work) = %s (work %s)", c, name, target, inv(work), work)
	}
	return nil
}

// checkTransition asserts DESIGN Appendix D on (old, new) where new is the state after
// the header at height c (c >= 1).
func checkTransition(n *NetCfg, o, w view, c uint64, tl *tally) error {
	e := era(n, c)
	tl.eras[e]++
	between := func(x, lo, hi *big.Int) bool { return x.Cmp(lo) >= 0 && x.Cmp(hi) <= 0 }
	bind := func(x, lo, hi, old *big.Int) {
		if (x.Cmp(lo) == 0 && lo.Cmp(old) != 0) || (x.Cmp(hi) == 0 && hi.Cmp(old) != 0) {
			tl.binds++
			stats.G().Label("bind:" + e)
		}
	}
	switch e {
	case "preoak":
		if w.T.Cmp(o.T) != 0 || w.D.Cmp(o.D) != 0 {
			return stats.Failf("C13/clamp/preoak", "height %d is not a multiple of 500 and <= Oak height %d, but target changed %s -> %s (difficulty %s -> %s)", c, n.Oak, o.T, w.T, o.D, w.D)
		}
	case "preoak-window":
		lo, hi := capT(frac(o.T, 10, 25)), capT(frac(o.T, 25, 10))
		if !between(w.T, lo, hi) {
			return stats.Failf("C13/clamp/preoak-window", "height %d: target %s -> %s outside [old*0.4, old*2.5] = [%s, %s]", c, o.T, w.T, lo, hi)
		}
		if hi.Cmp(maxT) == 0 && w.T.Cmp(maxT) == 0 && o.T.Cmp(maxT) != 0 {
			tl.caps++
		}
		bind(w.T, lo, hi, o.T)
	case "asic-reset":
		// unconstrained, but never zero (asserted below)
	case "oak":
		lo, hi := capT(frac(o.T, 1000, 1004)), capT(frac(o.T, 1004, 1000))
		if !between(w.T, lo, hi) {
			return stats.Failf("C13/clamp/oak", "height %d: target %s -> %s outside [old*1000/1004, old*1004/1000] = [%s, %s]", c, o.T, w.T, lo, hi)
		}
		if hi.Cmp(maxT) == 0 && w.T.Cmp(maxT) == 0 && o.T.Cmp(maxT) != 0 {
			tl.caps++
		}
		bind(w.T, lo, hi, o.T)
	case "v2":
		a := new(big.Int).Quo(o.D, big.NewInt(250))
		lo, hi := new(big.Int).Sub(o.D, a), new(big.Int).Add(o.D, a)
		if !between(w.D, lo, hi) {
			return stats.Failf("C13/clamp/v2", "height %d: difficulty %s -> %s outside D -+ floor(D/250) = [%s, %s]", c, o.D, w.D, lo, hi)
		}
		bind(w.D, lo, hi, o.D)
	case "finalcut":
		a := new(big.Int).Quo(o.D, big.NewInt(250))
		if a.Sign() == 0 {
			a = bigOne
		}
		lo, hi := new(big.Int).Sub(o.D, a), new(big.Int).Add(o.D, a)
		if lo.Sign() <= 0 {
			lo = bigOne
		}
		if !between(w.D, lo, hi) {
			return stats.Failf("C13/clamp/finalcut", "height %d: difficulty %s -> %s outside [max(D-a,1), D+a] = [%s, %s], a = max(floor(D/250),1)", c, o.D, w.D, lo, hi)
		}
		bind(w.D, lo, hi, o.D)
	}
	if w.D.Sign() == 0 {
		return stats.Failf("C13/zero/difficulty", "height %d: difficulty is zero", c)
	}
	// cumulative work
	if cmp := w.TW.Cmp(o.TW); cmp < 0 || (c >= n.Allow && cmp == 0) {
		return stats.Failf("C13/totalwork", "height %d (allow height %d): total work %s -> %s", c, n.Allow, o.TW, w.TW)
	}
	// floored inverses / zeroing
	if c >= n.FinalCut {
		if w.T.Sign() != 0 || w.Depth.Sign() != 0 || w.OakT.Sign() != 0 {
			return stats.Failf("C13/zeroing", "height %d >= final cut %d: deprecated fields not zero (childTarget %s depth %s oakTarget %s)", c, n.FinalCut, w.T, w.Depth, w.OakT)
		}
		if w.TW.Sign() == 0 || w.OakW.Sign() == 0 {
			return stats.Failf("C13/zero/work", "height %d: total work %s / oak work %s", c, w.TW, w.OakW)
		}
		return nil
	}
	pre := c < n.Allow
	if err := invRel(pre, w.T, w.D, "child", c); err != nil {
		return err
	}
	if err := invRel(pre, w.Depth, w.TW, "total", c); err != nil {
		return err
	}
	return invRel(pre, w.OakT, w.OakW, "oak", c)
}

// checkGenesis: the genesis header changes no difficulty and no cumulative work.
func checkGenesis(n *NetCfg, g, w view) error {
	init, _ := hexID(n.InitTarget)
	if g.T.Cmp(b32(init)) != 0 || g.D.Cmp(inv(g.T)) != 0 || g.Depth.Cmp(maxT) != 0 || g.TW.Cmp(bigOne) != 0 {
		return stats.Failf("C13/genesis-state", "GenesisState: target %s difficulty %s depth %s total work %s", g.T, g.D, g.Depth, g.TW)
	}
	if w.D.Cmp(g.D) != 0 || w.TW.Cmp(g.TW) != 0 {
		return stats.Failf("C13/genesis", "genesis header changed difficulty %s -> %s or total work %s -> %s", g.D, w.D, g.TW, w.TW)
	}
	if n.FinalCut == 0 {
		if w.T.Sign() != 0 || w.Depth.Sign() != 0 || w.OakT.Sign() != 0 {
			return stats.Failf("C13/zeroing", "final cut 0: deprecated fields not zero after genesis")
		}
		if w.OakW.Sign() == 0 {
			return stats.Failf("C13/zero/work", "oak work zero after genesis")
		}
		return nil
	}
	if w.T.Cmp(g.T) != 0 || w.Depth.Cmp(g.Depth) != 0 {
		return stats.Failf("C13/genesis", "genesis header changed target %s -> %s or depth %s -> %s", g.T, w.T, g.Depth, w.Depth)
	}
	return invRel(0 < n.Allow, w.OakT, w.OakW, "oak", 0)
}

// ---- ValidateHeader reference ----------------------------------------------------------------------

type vctx struct {
	n        *NetCfg
	parentID types.BlockID // ID of the tip as computed from the header this harness built
	hist     []int64       // timestamps of heights 0..c-1 (own history)
	c        uint64
	target   *big.Int
	tbytes   types.BlockID
	factor   uint64
}

func (v *vctx) conds(h types.BlockHeader) (c [4]bool) {
	id := h.ID()
	c[0] = h.ParentID == v.parentID
	c[1] = h.Timestamp.Unix() >= minAllowed(v.hist)
	c[2] = h.Nonce%v.factor == 0
	c[3] = bytes.Compare(id[:], v.tbytes[:]) <= 0
	return
}

const keyMedianSat = "C13/validate-header/median-duration-saturation"

// compare runs ValidateHeader against the reference predicate.
func (v *vctx) compare(s consensus.State, h types.BlockHeader, what string, tl *tally) error {
	cs := v.conds(h)
	want := cs[0] && cs[1] && cs[2] && cs[3]
	if !cs[1] && medianSaturates(v.hist) && stats.KnownOpen(keyMedianSat) {
		// open known finding: the library's even-count median is too low when the two middle
		// timestamps are more than ~292 years apart. A timestamp at or above the true median
		// is above the library's too, so only headers below the true median are excluded.
		stats.G().Excluded(keyMedianSat)
		return nil
	}
	var err error
	if p, st := stats.NoPanic(func() { err = consensus.ValidateHeader(s, h) }); p != nil {
		return stats.Failf("C13/validate-header/panic", "ValidateHeader panicked at height %d (%s): %v\n%s", v.c, what, p, st)
	}
	if (err == nil) != want {
		return stats.Failf("C13/validate-header/"+what, "height %d probe %q: ValidateHeader = %v, reference {parent ok %v, timestamp>=median %v (ts %d, min allowed %d), nonce%%%d==0 %v, id<=target %v (id %x target %x)}",
			v.c, what, err, cs[0], cs[1], h.Timestamp.Unix(), minAllowed(v.hist), v.factor, cs[2], cs[3], idb(h.ID()), idb(v.tbytes))
	}
	if want {
		tl.accepts++
	} else {
		tl.rejects++
		nf, which := 0, 0
		for i, ok := range cs {
			if !ok {
				nf++
				which = i
			}
		}
		if nf == 1 {
			tl.single[which][0]++
		}
	}
	return nil
}

// seal searches a nonce in the residue class of h.Nonce modulo factor whose ID meets
// (meet) or misses (!meet) the target.
func (v *vctx) seal(h *types.BlockHeader, meet bool, tries int) bool {
	for i := 0; i < tries; i++ {
		id := h.ID()
		if (bytes.Compare(id[:], v.tbytes[:]) <= 0) == meet {
			return true
		}
		h.Nonce += v.factor
	}
	return false
}

const sealTries = 600

// probes validates the base header and its one-condition mutants against state s.
func (v *vctx) probes(s consensus.State, base types.BlockHeader, baseSealed bool, seed uint64, tl *tally) error {
	try := func(h types.BlockHeader, what string, reseal bool) error {
		if reseal && baseSealed {
			if !v.seal(&h, true, sealTries) {
				return nil // could not isolate the condition; skip
			}
		}
		return v.compare(s, h, what, tl)
	}
	// 1. parent
	h := base
	h.ParentID[int(seed%32)] ^= 1 << (seed >> 8 % 8)
	if err := try(h, "parent-bitflip", true); err != nil {
		return err
	}
	h = base
	h.ParentID = types.BlockID{}
	if v.parentID != h.ParentID {
		if err := try(h, "parent-zero", true); err != nil {
			return err
		}
	}
	h = base
	h.ParentID = base.ID() // a header naming itself
	if err := try(h, "parent-other", true); err != nil {
		return err
	}
	// 2. timestamp around the minimum allowed
	lo := minAllowed(v.hist)
	for _, d := range []int64{0, -1, 1, -int64(seed>>16%100000) - 2} {
		if lo+d < 0 {
			continue
		}
		h = base
		h.Timestamp = time.Unix(lo+d, 0)
		if err := try(h, fmt.Sprintf("timestamp-min%+d", sign(d)), true); err != nil {
			return err
		}
	}
	// 3. nonce residue
	if v.factor > 1 {
		h = base
		h.Nonce = base.Nonce - base.Nonce%v.factor + 1 + (seed>>24)%(v.factor-1)
		if err := try(h, "nonce-residue", true); err != nil {
			return err
		}
	} else if v.n.NonceFactor > 1 {
		// before the ASIC height any nonce is admissible
		h = base
		h.Nonce = base.Nonce - base.Nonce%v.n.NonceFactor + 1 + (seed>>24)%(v.n.NonceFactor-1)
		if err := try(h, "nonce-free-before-asic", true); err != nil {
			return err
		}
	}
	// 4. work: same header, nonce in the admissible class, ID above the target
	if v.target.Cmp(maxT) < 0 {
		h = base
		if v.seal(&h, false, sealTries) {
			if err := v.compare(s, h, "insufficient-work", tl); err != nil {
				return err
			}
		}
		// and the exact boundary is expressible only through the ID; covered statistically
	}
	return nil
}

func idb(id types.BlockID) []byte { return id[:] }

func sign(d int64) int64 {
	switch {
	case d < -1:
		return -2
	default:
		return d
	}
}

// ---- the checker -------------------------------------------------------------------------------------

func powFieldsEqual(a, b consensus.State) string {
	switch {
	case a.Index != b.Index:
		return "Index"
	case a.Depth != b.Depth:
		return "Depth"
	case a.ChildTarget != b.ChildTarget:
		return "ChildTarget"
	case a.OakTime != b.OakTime:
		return "OakTime"
	case a.OakTarget != b.OakTarget:
		return "OakTarget"
	case a.TotalWork != b.TotalWork:
		return "TotalWork"
	case a.Difficulty != b.Difficulty:
		return "Difficulty"
	case a.OakWork != b.OakWork:
		return "OakWork"
	}
	for i := range a.PrevTimestamps {
		if !a.PrevTimestamps[i].Equal(b.PrevTimestamps[i]) {
			return fmt.Sprintf("PrevTimestamps[%d]", i)
		}
	}
	return ""
}

func asym(a, b consensus.State, c uint64) error {
	var ab, ba bool
	if p, st := stats.NoPanic(func() { ab, ba = a.SufficientlyHeavierThan(b), b.SufficientlyHeavierThan(a) }); p != nil {
		return stats.Failf("C13/heavier/panic", "SufficientlyHeavierThan panicked near height %d: %v\n%s", c, p, st)
	}
	if ab && ba {
		return stats.Failf("C13/heavier/asymmetry", "near height %d: both states are sufficiently heavier than each other (total work %s / %s, difficulty %s / %s)", c, a.TotalWork, b.TotalWork, a.Difficulty, b.Difficulty)
	}
	if ab || ba {
		stats.G().Label("heavier:one-way")
	} else {
		stats.G().Label("heavier:neither")
	}
	return nil
}

func checkHistory(c HistCase) error {
	rec := stats.G()
	if err := c.Net.valid(); err != nil {
		return stats.Failf("", "harness: invalid network in case: %v", err)
	}
	if c.Genesis < 0 || c.Genesis > maxTS {
		return stats.Failf("", "harness: genesis timestamp outside domain")
	}
	n := &c.Net
	net := n.network(c.Genesis)
	tl := &tally{eras: map[string]int{}}

	gen := net.GenesisState()
	sH, sB := gen, gen
	var hist []int64
	var histMs []int64 // milliseconds of each timestamp (all zero unless the case carries sub-second timestamps)
	var parentID types.BlockID

	for i := 0; i <= len(c.Steps); i++ {
		h := uint64(i)
		curMs := int64(0)
		var ts int64
		var target time.Time
		sub := len(c.SubMs) == len(c.Steps) && len(c.Steps) > 0 && !c.Probes
		if i == 0 {
			ts = c.Genesis
		} else if sub {
			ms := int64(c.SubMs[i-1])
			if ms < 1 || ms > 3000 {
				return stats.Failf("", "harness: sub-second step outside 1..3000 ms")
			}
			full := hist[i-1]*1000 + histMs[i-1] + ms
			ts = full / 1000
			curMs = full % 1000
			anc := 0
			if i-1 > 1000 {
				anc = i - 1 - 1000
			}
			target = time.Unix(hist[anc], histMs[anc]*1e6)
		} else {
			ts = nextTS(hist, n.IntervalS, c.Steps[i-1])
			// what a node supplies: the timestamp of the ancestor 1000 blocks before the
			// parent, or of the genesis block when the chain is shorter
			anc := 0
			if i-1 > 1000 {
				anc = i - 1 - 1000
			}
			target = time.Unix(hist[anc], 0)
		}
		factor := refFactor(n, h)
		nonce := mix(c.Seed, h, 1) >> 8
		if mix(c.Seed, h, 2)%8 != 0 {
			nonce -= nonce % factor
		}
		var hdr types.BlockHeader
		var blk types.Block
		if c.Blocks {
			blk = types.Block{ParentID: parentID, Nonce: nonce, Timestamp: time.Unix(ts, curMs*1e6),
				MinerPayouts: []types.SiacoinOutput{{Address: minerAddr, Value: sB.BlockReward()}}}
			if i > 0 && (h >= n.Require || (h >= n.Allow && mix(c.Seed, h, 3)%2 == 0)) {
				blk.V2 = &types.V2BlockData{Height: h, Commitment: sB.Commitment(minerAddr, nil, nil)}
			}
			hdr = blk.Header()
		} else {
			hdr = types.BlockHeader{ParentID: parentID, Nonce: nonce, Timestamp: time.Unix(ts, curMs*1e6), Commitment: mixHash(c.Seed, h)}
		}

		old := viewOf(sH)
		if i > 0 {
			v := &vctx{n: n, parentID: parentID, hist: hist, c: h, target: refTarget(n, old, h), factor: factor}
			v.tbytes = toID(v.target)
			// PoWTarget()/NonceFactor() are observation points of the property
			if got := sH.PoWTarget(); got != v.tbytes {
				return stats.Failf("C13/powtarget", "state at height %d: PoWTarget() = %x, want %x (final cut %d)", h-1, idb(got), idb(v.tbytes), n.FinalCut)
			}
			if got := sH.NonceFactor(); got != factor {
				return stats.Failf("C13/noncefactor", "state at height %d: NonceFactor() = %d, want %d (ASIC height %d)", h-1, got, factor, n.ASIC)
			}
			sealed := false
			if c.Probes {
				hdr.Nonce -= hdr.Nonce % factor
				if inv(v.target).BitLen() <= 7 { // expected tries <= 128
					sealed = v.seal(&hdr, true, 4*sealTries)
				}
				if sealed {
					tl.sealed++
				} else {
					tl.unseal++
				}
				if c.Blocks {
					blk.Nonce = hdr.Nonce
					if hdr != blk.Header() {
						return stats.Failf("", "harness: block header mismatch")
					}
				}
			}
			if err := v.compare(sH, hdr, "base", tl); err != nil {
				return err
			}
			if c.Probes {
				if err := v.probes(sH, hdr, sealed, mix(c.Seed, h, 4), tl); err != nil {
					return err
				}
			}
		}

		var nH consensus.State
		if p, st := stats.NoPanic(func() { nH = consensus.ApplyHeader(sH, hdr, target) }); p != nil {
			return stats.Failf("C13/apply-header/panic", "ApplyHeader panicked at height %d (era %s, timestamp %d, parent timestamp %v): %v\n%s", h, era(n, h), ts, last(hist), p, st)
		}
		if c.Blocks {
			var nB consensus.State
			if p, st := stats.NoPanic(func() { nB, _ = consensus.ApplyBlock(sB, blk, consensus.V1BlockSupplement{}, target) }); p != nil {
				return stats.Failf("C13/apply-block/panic", "ApplyBlock panicked at height %d: %v\n%s", h, p, st)
			}
			if f := powFieldsEqual(nH, nB); f != "" {
				return stats.Failf("C13/header-vs-block", "height %d (era %s): header-only state and full-block state differ in %s", h, era(n, h), f)
			}
			sB = nB
		}
		id := hdr.ID()
		if nH.Index.Height != h || nH.Index.ID != id {
			return stats.Failf("C13/index", "height %d: Index = %v, want height %d id %v", h, nH.Index, h, id)
		}
		hist = append(hist, ts)
		histMs = append(histMs, curMs)
		for k := 0; k < 11 && k <= i; k++ {
			if got := nH.PrevTimestamps[k]; got.Unix() != hist[i-k] || int64(got.Nanosecond()) != histMs[i-k]*1e6 {
				return stats.Failf("C13/prev-timestamps", "height %d: PrevTimestamps[%d] = %d, history says %d", h, k, got.Unix(), hist[i-k])
			}
		}
		nw := viewOf(nH)
		if i == 0 {
			if err := checkGenesis(n, old, nw); err != nil {
				return err
			}
		} else {
			if err := checkTransition(n, old, nw, h, tl); err != nil {
				return err
			}
			if err := asym(sH, nH, h); err != nil {
				return err
			}
		}
		if err := asym(nH, nH, h); err != nil {
			return err
		}
		sH = nH
		parentID = id
	}

	// ---- evidence
	eras := 0
	for _, e := range []string{"preoak", "oak", "v2", "finalcut"} {
		k := tl.eras[e]
		if e == "preoak" {
			k += tl.eras["preoak-window"]
		}
		if e == "oak" {
			k += tl.eras["asic-reset"]
		}
		if k > 0 {
			eras++
		}
	}
	for e, k := range tl.eras {
		rec.LabelN("era:"+e, uint64(k))
	}
	rec.LabelN("validate:accept", uint64(tl.accepts))
	rec.LabelN("validate:reject", uint64(tl.rejects))
	names := []string{"parent", "timestamp", "nonce", "work"}
	singles := 0
	for i, s := range tl.single {
		rec.LabelN("validate:only-"+names[i]+"-fails", uint64(s[0]))
		if s[0] > 0 {
			singles++
		}
	}
	if tl.caps > 0 {
		rec.LabelN("cap-at-2^255-taken", uint64(tl.caps))
	}
	rec.Extra("headers_applied", uint64(len(c.Steps)+1))
	var nt bool
	labels := []string{"profile:" + c.Profile, fmt.Sprintf("eras-crossed:%d", eras)}
	if c.Probes {
		// non-trivial: an accepted sealed header, and parent-only, timestamp-only and at
		// least one of nonce-only / work-only rejections in the same chain
		nt = tl.sealed > 0 && tl.accepts > 0 && tl.single[0][0] > 0 && tl.single[1][0] > 0 && singles >= 3
		if tl.single[3][0] == 0 {
			labels = append(labels, "probes:work-condition-unreachable(max target)")
		}
		rec.LabelN("probes:height-sealed", uint64(tl.sealed))
		rec.LabelN("probes:height-unsealable", uint64(tl.unseal))
		labels = append(labels, "kind:validate")
	} else {
		nt = eras >= 3 && tl.binds >= 1
		labels = append(labels, "kind:history")
	}
	if c.Blocks {
		labels = append(labels, "with-blocks")
	}
	stepHash := uint64(0)
	for _, s := range c.Steps {
		stepHash = mix(stepHash, uint64(s[0]), uint64(s[1]))
	}
	rec.Case(stats.FP(fmt.Sprintf("%+v", c.Net), c.Genesis, c.Profile, len(c.Steps), stepHash, c.Blocks, c.Probes, c.Seed), nt, labels...)
	if rec.WantSample() {
		rec.Sample(nt, map[string]any{"net": c.Net, "genesis": c.Genesis, "profile": c.Profile, "headers": len(c.Steps) + 1,
			"eras": tl.eras, "clamps_binding": tl.binds, "validate_accepts": tl.accepts, "validate_rejects": tl.rejects,
			"final_difficulty": sH.Difficulty.String(), "final_total_work": sH.TotalWork.String()})
	}
	return nil
}

func last(h []int64) any {
	if len(h) == 0 {
		return "none"
	}
	return h[len(h)-1]
}

// ---- SufficientlyHeavierThan on synthetic pairs --------------------------------------------------------

// HeavyCase holds decimal TotalWork / Difficulty of two states (all below 2^250 so that the
// documented Work.add overflow panic is out of reach).
type HeavyCase struct {
	ATW string `json:"a_total_work"`
	AD  string `json:"a_difficulty"`
	BTW string `json:"b_total_work"`
	BD  string `json:"b_difficulty"`
}

func checkHeavier(c HeavyCase) error {
	var a, b consensus.State
	for _, p := range []struct {
		w *consensus.Work
		s string
	}{{&a.TotalWork, c.ATW}, {&a.Difficulty, c.AD}, {&b.TotalWork, c.BTW}, {&b.Difficulty, c.BD}} {
		v, ok := new(big.Int).SetString(p.s, 10)
		if !ok || v.Sign() < 0 || v.BitLen() > 250 {
			return stats.Failf("", "harness: work value outside domain: %q", p.s)
		}
		if err := p.w.UnmarshalText([]byte(p.s)); err != nil {
			return stats.Failf("", "harness: %v", err)
		}
	}
	if err := asym(a, b, 0); err != nil {
		return err
	}
	if err := asym(a, a, 0); err != nil {
		return err
	}
	// non-trivial: total works within one "fifth of a difficulty" of each other (the
	// neighbourhood where a wrong comparison or threshold could make the relation symmetric)
	atw, btw := wk(a.TotalWork), wk(b.TotalWork)
	diff := new(big.Int).Sub(atw, btw)
	diff.Abs(diff)
	lim := new(big.Int).Quo(wk(a.Difficulty), big.NewInt(5))
	if l2 := new(big.Int).Quo(wk(b.Difficulty), big.NewInt(5)); l2.Cmp(lim) > 0 {
		lim = l2
	}
	lim.Add(lim, big.NewInt(2))
	nt := diff.Cmp(lim) <= 0
	stats.G().Case(stats.FP(c.ATW, c.AD, c.BTW, c.BD), nt, "kind:heavier")
	return nil
}
