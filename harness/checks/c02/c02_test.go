// C02 — No double spend or double resolution, within or across blocks and tx versions.
//
// Domain: generated valid chains; before each honest block is applied, adversary operators
// (harness/sim/adv.go) derive sibling blocks that contain a second use of some element —
// same transaction, another transaction of the block in every legal version pairing,
// outputs created and spent twice inside the block, elements spent / contracts resolved in
// earlier blocks re-presented with their maintained proofs (v2) or re-supplied in the
// supplement (v1), also after reorgs — each re-signed and re-sealed honestly.
// Oracle: ValidateBlock(adversarial) != nil while the honest sibling is accepted (it is
// applied next) and the single-use controls are accepted; history invariant: every
// element the accepted chain spends/resolves was live in the client store and is consumed
// once (Store.Apply refuses otherwise).
package c02

import (
	"fmt"
	"strings"
	"testing"

	"go.sia.tech/core/consensus"
	"go.sia.tech/core/types"
	"pgregory.net/rapid"
	"verif/harness/sim"
	"verif/harness/stats"
)

func TestMain(m *testing.M) { stats.Main(m) }

func draw(t *rapid.T) sim.ChainCase {
	g := sim.GenChain(t, sim.GenOpts{
		Net: sim.NetOpts{MaxForkHeight: rapid.SampledFrom([]int{6, 12, 25}).Draw(t, "forkSpan"), V2Only: rapid.IntRange(0, 4).Draw(t, "v2only") == 0,
			MixedWindow: rapid.SampledFrom([]int{0, 8, 16}).Draw(t, "mixedWindow")},
		MinBlocks: 8, MaxBlocks: 34, Reorgs: true, MaxReorg: 3, Profile: sim.Profile{Contracts: 1, MaxTxns: 5},
		OnBlock: func(g *sim.Gen, b *sim.Builder) {
			// blocks that revise a contract and then revise it again or renew it (legal), as a base for second-use probes
			if rapid.IntRange(0, 5).Draw(g.T, "reviseScenario") == 0 {
				b.AfterV1(func() {
					if b.V2Revise() {
						if rapid.Bool().Draw(g.T, "againOrRenew") {
							b.V2ReviseAgainInBlock()
						} else {
							b.V2RenewRevisedInBlock()
						}
					}
				})
			}
		},
		BeforeApply: func(g *sim.Gen, honest types.Block, bs consensus.V1BlockSupplement) {
			if rapid.IntRange(0, 2).Draw(g.T, "probeHere") == 0 {
				g.NewAdv(honest).DoubleSpendProbes()
			}
			if rapid.IntRange(0, 5).Draw(g.T, "confusionHere") == 0 {
				g.NewAdv(honest).KindConfusionProbes()
			}
		},
	})
	c, err := g.Case.Normalize()
	if err != nil {
		panic(err)
	}
	return c
}

func errClass(err error) string {
	s := err.Error()
	for _, k := range []string{"double-spends", "more than once", "already been resolved", "already been revised", "already resolved", "conflicts with previous", "not present in the accumulator", "nonexistent", "redundant"} {
		if strings.Contains(s, k) {
			return k
		}
	}
	return "other"
}

func check(c sim.ChainCase) error {
	rec := stats.G()
	probes := 0
	hooks := sim.Hooks{
		// history invariant on every accepted block: nothing is resolved by two mechanisms of one block
		// (proof + supplement expiry, two v2 resolutions) and every payout family is created at most once
		AfterApply: func(ch *sim.Chain, st *sim.Step, parent consensus.State, au consensus.ApplyUpdate) error {
			if err := sim.SingleResolution(*st.Block, *st.Supp, au); err != nil {
				return stats.Failf("C02/single-resolution", "accepted block at height %d: %v", ch.Height(), err)
			}
			return nil
		},
		Probe: func(ch *sim.Chain, st *sim.Step) error {
			err := consensus.ValidateBlock(ch.Tip(), *st.Block, *st.Supp)
			id := st.Block.ID()
			switch st.Want {
			case "reject":
				if err == nil {
					return stats.Failf("C02/"+st.Label, "block with a second use (%s) was ACCEPTED at height %d", st.Label, ch.Height()+1)
				}
				probes++
				rec.Case(stats.FP(st.Label, id[:]), true, "op:"+st.Label, "rejected-for:"+errClass(err))
				if rec.WantSample() {
					rec.Sample(true, map[string]any{"operator": st.Label, "height": ch.Height() + 1, "verdict": err.Error()})
				}
			case "accept":
				if err != nil {
					return stats.Failf("C02/control/"+st.Label, "single-use control block (%s) was rejected: %v", st.Label, err)
				}
				rec.Case(stats.FP(st.Label, id[:]), false, "control:"+st.Label)
			case "sound":
				// rejection is not presumed: whatever validation accepts must be sound (DESIGN 4.6)
				accepted, serr := sim.SoundApply(ch, *st.Block, *st.Supp, false)
				if serr != nil {
					return stats.Failf("C02/"+st.Label, "%s at height %d: %v", st.Label, ch.Height()+1, serr)
				}
				verdict := "rejected"
				if accepted {
					verdict = "accepted-and-sound"
				}
				rec.Case(stats.FP(st.Label, id[:]), true, "op:"+st.Label, "sound-probe:"+verdict)
			default:
				return fmt.Errorf("harness: unknown want %q", st.Want)
			}
			return nil
		},
	}
	if _, err := sim.Replay(c, hooks); err != nil {
		if _, ok := err.(*stats.Failure); ok {
			return err
		}
		// Store.Apply failures (an accepted history consuming something not live / twice) land here too
		return stats.Failf("C02/replay", "%v", err)
	}
	rec.Extra("chains", 1)
	rec.Extra("probes", uint64(probes))
	return nil
}

func TestDoubleSpend(t *testing.T)       { stats.Prop(t, draw, check) }
func TestReplayDoubleSpend(t *testing.T) { stats.Replay(t, "TestDoubleSpend", check) }
func TestRegress(t *testing.T)           { stats.Regress(t, "TestDoubleSpend", check) }
