// C08 — Height- and time-dependent rules flip exactly at their boundaries.
//
// Domain: rule table (harness/sim/adv_bound.go BoundRules) x random network configurations
// (fork heights, maturity delay, block interval) x a simulator prefix. For each case an
// object whose bound lies a few blocks ahead is set up; a transaction that is valid except
// for the rule under test is rebuilt (fresh proofs / supplement, re-signed for the era) and
// offered, as the only transaction of an honestly sealed block, at every child height from
// bound-2 to bound+1 while empty blocks advance the chain.
// Oracle: the verdict computed from the property text (DESIGN Appendix A): rejected at every
// height before the bound, accepted from the bound on (mirrored for upper bounds); v2 policy
// heights compare with the parent height, v2 time locks with the harness's own median of the
// last <= 11 timestamps.
package c08

import (
	"fmt"
	"strings"
	"testing"

	"go.sia.tech/core/consensus"
	"pgregory.net/rapid"
	"verif/harness/sim"
	"verif/harness/stats"
)

func TestMain(m *testing.M) { stats.Main(m) }

// BoundCase is a chain case plus the rule it exercises.
type BoundCase struct {
	Rule  string        `json:"rule"`
	Chain sim.ChainCase `json:"chain"`
}

func draw(t *rapid.T) BoundCase {
	rule := rapid.SampledFrom(sim.BoundRules).Draw(t, "rule")
	var opts sim.NetOpts
	switch {
	case rule == "v1-until-require-height" || rule == "v2-from-allow-height":
		opts = sim.NetOpts{MaxForkHeight: rapid.SampledFrom([]int{6, 10, 16}).Draw(t, "forkSpan")}
	case rule == "v2-ephemeral-parent-maturity":
		opts = sim.NetOpts{MaxForkHeight: rapid.SampledFrom([]int{0, 3, 6}).Draw(t, "forkSpan"), EphemeralNear: 5}
	case rule == "v1-devaddr-override-timelock":
		opts = sim.NetOpts{MaxForkHeight: rapid.SampledFrom([]int{2, 5, 20}).Draw(t, "forkSpan"), V1Only: true, DevTimelock: true}
	case strings.HasPrefix(rule, "v1-"):
		opts = sim.NetOpts{MaxForkHeight: rapid.SampledFrom([]int{4, 10, 20}).Draw(t, "forkSpan"), V1Only: true}
	default:
		if rapid.Bool().Draw(t, "v2only") {
			opts = sim.NetOpts{V2Only: true}
		} else {
			opts = sim.NetOpts{MaxForkHeight: rapid.SampledFrom([]int{3, 6}).Draw(t, "forkSpan")}
		}
	}
	g := sim.NewGen(t, sim.GenOpts{Net: opts, Profile: sim.Profile{MaxTxns: 3}, NoScenarios: true})
	net := g.C.Net
	// prefix: bring the chain to where the rule can be exercised
	prefix := rapid.IntRange(1, 6).Draw(t, "prefix")
	for i := 0; i < prefix && !g.Dead; i++ {
		g.Block()
	}
	reach := func(h uint64) {
		for !g.Dead && g.C.Height()+1 < h && g.C.Height() < 60 {
			g.Block()
		}
	}
	switch {
	case rule == "v1-until-require-height":
		if net.HardforkV2.RequireHeight > 3 {
			reach(net.HardforkV2.RequireHeight - 3)
		}
	case rule == "v2-from-allow-height":
		if net.HardforkV2.AllowHeight > 3 {
			reach(net.HardforkV2.AllowHeight - 3)
		}
	case rule == "v2-ephemeral-parent-maturity":
		reach(net.HardforkV2.AllowHeight + 1)
		if net.HardforkV2.EphemeralOutputHeight > 3 {
			reach(net.HardforkV2.EphemeralOutputHeight - 3)
		}
	case strings.HasPrefix(rule, "v2-"):
		reach(net.HardforkV2.AllowHeight + 1)
	}
	c := BoundCase{Rule: rule}
	if !g.Dead {
		if sc, ok := g.SetupBound(rule); ok {
			for !g.Dead && g.C.Height()+1 <= sc.To {
				child := g.C.Height() + 1
				if child >= sc.From {
					a := g.NewAdv(sim.EmptyHonest())
					if blk, bs, ok := sc.Build(a); ok {
						want := "reject"
						if sc.Want(a) {
							want = "accept"
						}
						if sc.Any != nil && sc.Any(a) {
							want = "any"
						}
						g.Probe(blk, bs, rule, want, map[string]string{"child": fmt.Sprint(child)})
					}
				}
				mode := 0
				if rule == "v2-after" {
					mode = rapid.IntRange(0, 2).Draw(t, "advanceTs")
				}
				if !g.EmptyBlock(mode) {
					break
				}
			}
		}
	}
	cc, err := g.Case.Normalize()
	if err != nil {
		panic(err)
	}
	c.Chain = cc
	return c
}

func check(c BoundCase) error {
	rec := stats.G()
	rejected, accepted, legacyAccepted := 0, 0, 0
	var lastReject, firstAccept uint64
	hooks := sim.Hooks{
		Probe: func(ch *sim.Chain, st *sim.Step) error {
			err := consensus.ValidateBlock(ch.Tip(), *st.Block, *st.Supp)
			child := ch.Height() + 1
			switch st.Want {
			case "accept":
				if err != nil {
					return stats.Failf("C08/"+c.Rule+"/late", "rule %s: the transaction is REJECTED at child height %d although the bound has been reached: %v", c.Rule, child, err)
				}
				if accepted == 0 {
					firstAccept = child
				}
				accepted++
			case "reject":
				if err == nil {
					return stats.Failf("C08/"+c.Rule+"/early", "rule %s: the transaction is ACCEPTED at child height %d, before its bound", c.Rule, child)
				}
				rejected++
				lastReject = child
			case "any":
				// documented legacy window: the verdict is recorded (an acceptance shows that the construction is valid
				// but for the rule judged from the bound on), never asserted
				if err == nil {
					legacyAccepted++
					accepted++
					if firstAccept == 0 {
						firstAccept = child
					}
				}
			default:
				return fmt.Errorf("harness: unknown want %q", st.Want)
			}
			return nil
		},
	}
	ch, err := sim.Replay(c.Chain, hooks)
	if err != nil {
		if _, ok := err.(*stats.Failure); ok {
			return err
		}
		return stats.Failf("C08/replay", "%v", err)
	}
	nt := rejected > 0 && accepted > 0
	labels := []string{"rule:" + c.Rule}
	if nt {
		labels = append(labels, "flip-observed:"+c.Rule)
	} else if rejected+accepted == 0 {
		labels = append(labels, "no-probe:"+c.Rule)
	} else {
		labels = append(labels, "one-sided:"+c.Rule)
	}
	if legacyAccepted > 0 {
		labels = append(labels, "legacy-window-accepted:"+c.Rule)
	}
	n := c.Chain.Network
	rec.Case(stats.FP(c.Rule, n.MaturityDelay, uint64(n.BlockInterval), n.HardforkV2.AllowHeight, n.HardforkV2.RequireHeight, n.HardforkFoundation.Height, n.HardforkASIC.Height, lastReject, firstAccept), nt, labels...)
	rec.Extra("probes", uint64(rejected+accepted))
	if nt && rec.WantSample() {
		rec.Sample(true, map[string]any{"rule": c.Rule, "last_rejected_child": lastReject, "first_accepted_child": firstAccept, "maturity_delay": n.MaturityDelay, "tip": ch.Height()})
	}
	return nil
}

func TestBoundary(t *testing.T)       { stats.Prop(t, draw, check) }
func TestReplayBoundary(t *testing.T) { stats.Replay(t, "TestBoundary", check) }
func TestRegress(t *testing.T)        { stats.Regress(t, "TestBoundary", check) }
