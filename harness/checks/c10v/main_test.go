package c10

import (
	"testing"

	"verif/harness/stats"
)

func TestMain(m *testing.M) { stats.Main(m) }
