package c16

import (
	"fmt"
	"reflect"
	"sort"
	"testing"

	rhp2 "go.sia.tech/core/rhp/v2"
	rhp4 "go.sia.tech/core/rhp/v4"
	"pgregory.net/rapid"
	"verif/harness/gen"
	"verif/harness/stats"
)

// ProofCase is one proof scenario over a list of N pseudo-random, pairwise distinct
// sector roots (element i is leafOf(Seed, i)).
//
//	range   BuildSectorRangeProof / BuildSectorRootsProof for [Start,End) and their verifiers,
//	        RangeProofSize, ProofSize, ConvertProofOrdering (single-element ranges)
//	append  v4 BuildAppendProof / VerifyAppendSectorsProof for Batch new roots, v2 VerifyAppendProof (Batch==1)
//	free    v4 BuildFreeSectorsProof / VerifyFreeSectorsProof for the ordered index list Freed
//	diff    v2 BuildDiffProof / VerifyDiffProof / DiffProofSize for the action list Acts
type ProofCase struct {
	Path  string   `json:"path"`
	Kind  string   `json:"kind"`
	N     int      `json:"n"`
	Seed  uint64   `json:"seed"`
	Start int      `json:"start,omitempty"`
	End   int      `json:"end,omitempty"`
	Batch int      `json:"batch,omitempty"`
	Freed []uint64 `json:"freed,omitempty"`
	Acts  []Act    `json:"acts,omitempty"`
	// Data: diff only — appended sectors carry real 4 MiB data and no precomputed roots are
	// handed to the verifier (it hashes them itself).
	Data bool `json:"data,omitempty"`
	// Full: try every position for every corruption kind instead of a sample.
	Full bool `json:"full,omitempty"`
}

// keyIndexUnbound: VerifyDiffProof / VerifyFreeSectorsProof accept a proof built for one set
// of sector indices under an index list that refers to a different set (see TestKnown).
const keyIndexUnbound = "C16/diff-verify/index-unbound"

var knownShown int // at most a few accepted instances of the open finding are spelled out per process

// small cache so that enumerators do not rebuild the same tree for every (start,end)
var treeCache struct {
	seed uint64
	n    int
	t    *refTree
}

func treeFor(seed uint64, n int) *refTree {
	if treeCache.t != nil && treeCache.seed == seed && treeCache.n == n {
		return treeCache.t
	}
	t := newRefTree(leavesOf(seed, n))
	treeCache.seed, treeCache.n, treeCache.t = seed, n, t
	return t
}

// positions returns the indices in [0,k) at which a corruption is tried.
func positions(k int, full bool, rng *sm64) []int {
	if k <= 0 {
		return nil
	}
	if full || k <= 8 {
		out := make([]int, k)
		for i := range out {
			out[i] = i
		}
		return out
	}
	set := map[int]bool{0: true, k - 1: true, k / 2: true}
	for i := 0; i < 3; i++ {
		set[int(rng.next()%uint64(k))] = true
	}
	out := make([]int, 0, len(set))
	for i := range set {
		out = append(out, i)
	}
	sort.Ints(out)
	return out
}

func cloneH(hs []H) []H { return append([]H{}, hs...) }

// twice presents the same hash lists to a verifier two times. The lists are the caller's: a verification must leave
// them as they were (a host checks the proof it built before sending it, a proxy verifies and forwards), and the second
// presentation of the very same lists must be judged like the first.
func twice(prefix, desc string, lists [][]H, verify func(lists [][]H) bool) error {
	mine := make([][]H, len(lists))
	for i := range lists {
		mine[i] = cloneH(lists[i])
	}
	first := verify(mine)
	for i := range lists {
		if !eqHashes(mine[i], lists[i]) {
			return stats.Failf(prefix+"/verifier-modifies-argument", "%s: the verifier changed hash list #%d it was given: %s became %s", desc, i, showHashes(lists[i]), showHashes(mine[i]))
		}
	}
	if second := verify(mine); second != first {
		return stats.Failf(prefix+"/verifier-modifies-argument", "%s: the same lists presented a second time are judged %v, the first time %v", desc, second, first)
	}
	return nil
}

func without(hs []H, i int) []H {
	out := make([]H, 0, len(hs))
	out = append(out, hs[:i]...)
	return append(out, hs[i+1:]...)
}

func with(hs []H, i int, h H) []H {
	out := make([]H, 0, len(hs)+1)
	out = append(out, hs[:i]...)
	out = append(out, h)
	return append(out, hs[i:]...)
}

// rejector counts rejected corruptions and produces the failure for an accepted one.
type rejector struct {
	key  string
	desc string
	n    uint64
	by   map[string]uint64
}

func newRejector(key, desc string) *rejector {
	return &rejector{key: key, desc: desc, by: map[string]uint64{}}
}

func (r *rejector) must(kind string, accepted bool, format string, args ...any) error {
	if accepted {
		return stats.Failf(r.key+"/accepts-"+kind, "%s: verifier ACCEPTED a corrupted input (%s: %s)", r.desc, kind, fmt.Sprintf(format, args...))
	}
	r.n++
	r.by[kind]++
	return nil
}

func (r *rejector) report() {
	kinds := make([]string, 0, len(r.by))
	for k := range r.by {
		kinds = append(kinds, k)
	}
	sort.Strings(kinds)
	for _, k := range kinds {
		stats.G().LabelN("rejected:"+k, r.by[k])
	}
	stats.G().Extra("corruptions_rejected", r.n)
}

func checkProof(c ProofCase) error {
	usePath(c.Path)
	if c.N < 0 || c.N > 1<<20 {
		return stats.Failf("", "harness: n out of range")
	}
	switch c.Kind {
	case "range":
		return checkRange(c)
	case "append":
		return checkAppend(c)
	case "free", "diff":
		return checkDiff(c)
	}
	return stats.Failf("", "harness: unknown kind %q", c.Kind)
}

// ---- range proofs over sector roots --------------------------------------------------------

func alignedSubtree(start, end int) bool {
	l := end - start
	return isPow2(l) && start%l == 0
}

func checkRange(c ProofCase) error {
	n, start, end := c.N, c.Start, c.End
	if !(0 <= start && start < end && end <= n) {
		return stats.Failf("", "harness: inadmissible range")
	}
	desc := fmt.Sprintf("range n=%d [%d,%d) seed=%d path=%s", n, start, end, c.Seed, curPath())
	fail := func(key, format string, args ...any) error {
		return stats.Failf("C16/range/"+key, "%s: %s", desc, fmt.Sprintf(format, args...))
	}
	t := treeFor(c.Seed, n)
	leaves := t.leaves
	root := t.root()
	want := t.rangeProof(start, end)
	un, us, ue := uint64(n), uint64(start), uint64(end)

	// builders == reference
	got2 := rhp2.BuildSectorRangeProof(leaves, us, ue)
	if !eqHashes(got2, want) {
		return fail("build", "rhp2.BuildSectorRangeProof = %s, tree definition gives %s", showHashes(got2), showHashes(want))
	}
	got4 := rhp4.BuildSectorRootsProof(leaves, us, ue)
	if !eqHashes(got4, want) {
		return fail("build", "rhp4.BuildSectorRootsProof = %s, tree definition gives %s", showHashes(got4), showHashes(want))
	}
	if sz := rhp2.RangeProofSize(un, us, ue); sz != uint64(len(want)) {
		return fail("size", "RangeProofSize = %d, proof has %d hashes", sz, len(want))
	}
	if end == start+1 {
		if sz := rhp2.ProofSize(un, us); sz != uint64(len(want)) {
			return fail("size", "ProofSize = %d, proof has %d hashes", sz, len(want))
		}
		conv := rhp2.ConvertProofOrdering(cloneH(want), us)
		if p := t.path(start); !eqHashes(conv, p) {
			return fail("convert", "ConvertProofOrdering = %s, leaf-to-root path is %s", showHashes(conv), showHashes(p))
		}
	}
	if !refVerifyRange(n, start, end, want, leaves[start:end], root) {
		return stats.Failf("", "harness: reference verifier rejects the reference proof (%s)", desc)
	}

	// completeness
	rr := leaves[start:end]
	verify := func(proof, rr []H, s, e int, root H) (bool, bool) {
		a := rhp2.VerifySectorRangeProof(cloneH(proof), rr, uint64(s), uint64(e), un, root)
		b := rhp4.VerifySectorRootsProof(cloneH(proof), rr, un, uint64(s), uint64(e), root)
		return a, b
	}
	if a, b := verify(want, rr, start, end, root); !a || !b {
		return fail("complete", "honest proof rejected (v2 verifier %v, v4 verifier %v)", a, b)
	}
	if err := twice("C16/range", desc, [][]H{want, rr}, func(l [][]H) bool {
		return rhp2.VerifySectorRangeProof(l[0], l[1], us, uint64(end), un, root) && rhp4.VerifySectorRootsProof(l[0], l[1], un, us, uint64(end), root)
	}); err != nil {
		return err
	}

	// soundness: single corruptions, count held true, preconditions respected
	rng := sm64(c.Seed ^ uint64(n)<<40 ^ uint64(start)<<20 ^ uint64(end))
	rj := newRejector("C16/range", desc)
	both := func(kind string, proof, rr []H, s, e int, root H, format string, args ...any) error {
		a, b := verify(proof, rr, s, e, root)
		if err := rj.must(kind, a, "v2: "+format, args...); err != nil {
			return err
		}
		return rj.must(kind, b, "v4: "+format, args...)
	}
	for _, i := range positions(len(want), c.Full, &rng) {
		p := cloneH(want)
		p[i] = flipBit(p[i], rng.next())
		if err := both("proof-hash", p, rr, start, end, root, "proof[%d]", i); err != nil {
			return err
		}
	}
	for _, i := range positions(len(rr), c.Full, &rng) {
		r := cloneH(rr)
		r[i] = flipBit(r[i], rng.next())
		if err := both("covered-root", want, r, start, end, root, "sector root %d", start+i); err != nil {
			return err
		}
	}
	l := end - start
	var shifts []int
	if c.Full {
		for s := 0; s+l <= n; s++ {
			shifts = append(shifts, s)
		}
	} else {
		shifts = []int{start - 2, start - 1, start + 1, start + 2, 0, n - l}
		if n-l > 0 {
			shifts = append(shifts, int(rng.next()%uint64(n-l+1)), int(rng.next()%uint64(n-l+1)))
		}
	}
	for _, s := range shifts {
		if s == start || s < 0 || s+l > n {
			continue
		}
		if refVerifyRange(n, s, s+l, want, rr, root) {
			stats.G().Label("range:equivalent-shift-skipped")
			continue
		}
		if err := both("index-shift", want, rr, s, s+l, root, "range claimed as [%d,%d)", s, s+l); err != nil {
			return err
		}
	}
	if err := both("root", want, rr, start, end, flipBit(root, rng.next()), "root"); err != nil {
		return err
	}
	if len(want) > 0 {
		if err := both("proof-short", without(want, len(want)-1), rr, start, end, root, "last proof hash dropped"); err != nil {
			return err
		}
		if err := both("proof-short", without(want, 0), rr, start, end, root, "first proof hash dropped"); err != nil {
			return err
		}
	}
	extra := leafOf(c.Seed, 1<<40)
	if err := both("proof-long", with(want, len(want), extra), rr, start, end, root, "extra hash appended"); err != nil {
		return err
	}
	if err := both("proof-long", with(want, 0, extra), rr, start, end, root, "extra hash prepended"); err != nil {
		return err
	}
	if len(want) > 0 {
		if err := both("proof-long", with(want, len(want), want[len(want)-1]), rr, start, end, root, "last hash duplicated"); err != nil {
			return err
		}
	}
	rj.report()

	nt := !isPow2(n) || !alignedSubtree(start, end)
	labels := []string{"kind:range"}
	if !isPow2(n) {
		labels = append(labels, "range:n-not-pow2")
	}
	if !alignedSubtree(start, end) {
		labels = append(labels, "range:unaligned")
	}
	if end == n {
		labels = append(labels, "range:touches-last")
	}
	if end == start+1 {
		labels = append(labels, "range:single")
	}
	stats.G().Case(stats.FP("range", n, start, end), nt, labels...)
	if stats.G().WantSample() {
		stats.G().Sample(nt, map[string]any{"case": c, "proof_hashes": len(want), "corruptions_rejected": rj.n})
	}
	return nil
}

// ---- append proofs -------------------------------------------------------------------------

func checkAppend(c ProofCase) error {
	n, batch := c.N, c.Batch
	if batch < 0 || batch > 1<<16 {
		return stats.Failf("", "harness: batch out of range")
	}
	desc := fmt.Sprintf("append n=%d batch=%d seed=%d path=%s", n, batch, c.Seed, curPath())
	fail := func(key, format string, args ...any) error {
		return stats.Failf("C16/append/"+key, "%s: %s", desc, fmt.Sprintf(format, args...))
	}
	t := treeFor(c.Seed, n)
	oldRoot := t.root()
	appended := make([]H, batch)
	for i := range appended {
		appended[i] = leafOf(c.Seed, uint64(1)<<32+uint64(i))
	}
	all := append(cloneH(t.leaves), appended...)
	newRoot := newRefTree(all).root()
	want := t.appendProof()
	un := uint64(n)

	got, gotRoot := rhp4.BuildAppendProof(cloneH(t.leaves), appended)
	if !eqHashes(got, want) {
		return fail("build", "BuildAppendProof subtree roots = %s, tree definition gives %s", showHashes(got), showHashes(want))
	}
	if gotRoot != newRoot {
		return fail("build", "BuildAppendProof new root = %s want %s", short(gotRoot), short(newRoot))
	}
	v4 := func(proof, app []H, or, nr H) bool {
		return rhp4.VerifyAppendSectorsProof(un, cloneH(proof), app, or, nr)
	}
	if !v4(want, appended, oldRoot, newRoot) {
		return fail("complete", "VerifyAppendSectorsProof rejected the honest proof")
	}
	v2 := func(proof []H, sector, or, nr H) bool {
		return rhp2.VerifyAppendProof(un, cloneH(proof), sector, or, nr)
	}
	if batch == 1 && !v2(want, appended[0], oldRoot, newRoot) {
		return fail("complete", "rhp2.VerifyAppendProof rejected the honest proof")
	}
	if err := twice("C16/append", desc, [][]H{want, appended}, func(l [][]H) bool {
		ok := rhp4.VerifyAppendSectorsProof(un, l[0], l[1], oldRoot, newRoot)
		if batch == 1 {
			ok = ok && rhp2.VerifyAppendProof(un, l[0], l[1][0], oldRoot, newRoot)
		}
		return ok
	}); err != nil {
		return err
	}

	rng := sm64(c.Seed ^ uint64(n)<<32 ^ uint64(batch))
	rj := newRejector("C16/append", desc)
	try := func(kind string, proof, app []H, or, nr H, format string, args ...any) error {
		if err := rj.must(kind, v4(proof, app, or, nr), "v4: "+format, args...); err != nil {
			return err
		}
		if batch == 1 && len(app) == 1 {
			return rj.must(kind, v2(proof, app[0], or, nr), "v2: "+format, args...)
		}
		return nil
	}
	for i := range want {
		p := cloneH(want)
		p[i] = flipBit(p[i], rng.next())
		if err := try("subtree-root", p, appended, oldRoot, newRoot, "subtreeRoots[%d]", i); err != nil {
			return err
		}
		// shortened by one (the verifier does not fix the length; a missing hash must still fail)
		if err := try("proof-short", without(want, i), appended, oldRoot, newRoot, "subtreeRoots[%d] dropped", i); err != nil {
			return err
		}
	}
	for i := range appended {
		a := cloneH(appended)
		a[i] = flipBit(a[i], rng.next())
		if err := try("appended-root", want, a, oldRoot, newRoot, "appended[%d]", i); err != nil {
			return err
		}
	}
	if batch >= 2 && appended[0] != appended[1] {
		a := cloneH(appended)
		a[0], a[1] = a[1], a[0]
		if err := try("appended-order", want, a, oldRoot, newRoot, "appended[0] and [1] exchanged"); err != nil {
			return err
		}
	}
	if batch >= 1 {
		if err := try("appended-short", want, appended[:batch-1], oldRoot, newRoot, "last appended root dropped"); err != nil {
			return err
		}
		if err := try("appended-long", want, append(cloneH(appended), leafOf(c.Seed, 1<<41)), oldRoot, newRoot, "one more appended root"); err != nil {
			return err
		}
	}
	if err := try("old-root", want, appended, flipBit(oldRoot, rng.next()), newRoot, "old root"); err != nil {
		return err
	}
	if err := try("new-root", want, appended, oldRoot, flipBit(newRoot, rng.next()), "new root"); err != nil {
		return err
	}
	rj.report()

	nt := !isPow2(n) || batch > 1
	stats.G().Case(stats.FP("append", n, batch), nt, "kind:append")
	if stats.G().WantSample() {
		stats.G().Sample(nt, map[string]any{"case": c, "subtree_roots": len(want), "corruptions_rejected": rj.n})
	}
	return nil
}

// ---- diff proofs (v2 action lists, v4 free) -------------------------------------------------

func toV2(acts []Act, data [][]byte) []rhp2.RPCWriteAction {
	out := make([]rhp2.RPCWriteAction, 0, len(acts))
	k := 0
	for _, a := range acts {
		switch a.T {
		case "append":
			w := rhp2.RPCWriteAction{Type: rhp2.RPCWriteActionAppend}
			if data != nil {
				w.Data = data[k]
			}
			k++
			out = append(out, w)
		case "swap":
			out = append(out, rhp2.RPCWriteAction{Type: rhp2.RPCWriteActionSwap, A: a.A, B: a.B})
		case "trim":
			out = append(out, rhp2.RPCWriteAction{Type: rhp2.RPCWriteActionTrim, A: a.A})
		}
	}
	return out
}

func sameInts(a, b []int) bool {
	if len(a) != len(b) {
		return false
	}
	for i := range a {
		if a[i] != b[i] {
			return false
		}
	}
	return true
}

func distinctBelow(xs []uint64, n int) bool {
	seen := map[uint64]bool{}
	for _, x := range xs {
		if x >= uint64(n) || seen[x] {
			return false
		}
		seen[x] = true
	}
	return true
}

func checkDiff(c ProofCase) error {
	n := c.N
	v4 := c.Kind == "free"
	desc := fmt.Sprintf("%s n=%d seed=%d path=%s freed=%v acts=%v", c.Kind, n, c.Seed, curPath(), c.Freed, c.Acts)
	fail := func(key, format string, args ...any) error {
		return stats.Failf("C16/"+c.Kind+"/"+key, "%s: %s", desc, fmt.Sprintf(format, args...))
	}
	t := treeFor(c.Seed, n)
	leaves := t.leaves
	oldRoot := t.root()
	un := uint64(n)

	acts := c.Acts
	if v4 {
		if !distinctBelow(c.Freed, n) {
			return stats.Failf("", "harness: freed indices must be distinct and < n (RPCFreeSectorsRequest.Validate)")
		}
		acts = freeActs(c.Freed, n)
	}
	nApp := 0
	for _, a := range acts {
		if a.T == "append" {
			nApp++
		}
	}
	appendRoots := make([]H, nApp)
	var appendData [][]byte
	if c.Data && nApp > 0 {
		if nApp > 3 {
			return stats.Failf("", "harness: at most 3 data-carrying appends")
		}
		appendData = make([][]byte, nApp)
		for i := range appendData {
			appendData[i] = make([]byte, rhp2.SectorSize)
			fillBytes(appendData[i], c.Seed+uint64(i)*7919)
			lh := make([]H, rhp2.LeavesPerSector)
			for j := range lh {
				lh[j] = refLeafFast(appendData[i][j*64:][:64])
			}
			appendRoots[i] = newRefTree(lh).root()
		}
	} else {
		for i := range appendRoots {
			appendRoots[i] = leafOf(c.Seed, uint64(1)<<32+uint64(i))
		}
	}
	newList, touched, ok := refApply(leaves, acts, appendRoots)
	if !ok {
		return stats.Failf("", "harness: action list out of bounds (%s)", desc)
	}
	newRoot := mthOf(newList)
	wantTree, wantLeaf := t.diffProof(touched)

	var wactions []rhp2.RPCWriteAction
	var gotTree, gotLeaf []H
	if v4 {
		gotTree, gotLeaf = rhp4.BuildFreeSectorsProof(cloneH(leaves), c.Freed)
	} else {
		wactions = toV2(acts, appendData)
		gotTree, gotLeaf = rhp2.BuildDiffProof(wactions, cloneH(leaves))
		if sz := rhp2.DiffProofSize(wactions, un); sz != uint64(len(wantTree)+len(wantLeaf)) {
			return fail("size", "DiffProofSize = %d, proof has %d+%d hashes", sz, len(wantTree), len(wantLeaf))
		}
	}
	if !eqHashes(gotTree, wantTree) {
		return fail("build", "tree hashes = %s, tree definition gives %s (touched %v)", showHashes(gotTree), showHashes(wantTree), touched)
	}
	if !eqHashes(gotLeaf, wantLeaf) {
		return fail("build", "leaf hashes = %s, tree definition gives %s (touched %v)", showHashes(gotLeaf), showHashes(wantLeaf), touched)
	}
	// the two lists are the caller's (they travel in different fields of the response, either may be appended to)
	both := struct{ Tree, Leaf []H }{gotTree, gotLeaf}
	if herr := gen.AppendHazard(reflect.ValueOf(&both).Elem()); herr != nil {
		return fail("build-outputs-share-memory", "%v", herr)
	}

	// the verifier under the current index/action list
	verifyWith := func(freed []uint64, wa []rhp2.RPCWriteAction, tree, leaf []H, or, nr H, ar []H) bool {
		if v4 {
			return rhp4.VerifyFreeSectorsProof(cloneH(tree), cloneH(leaf), freed, un, or, nr)
		}
		return rhp2.VerifyDiffProof(wa, un, cloneH(tree), cloneH(leaf), or, nr, ar)
	}
	var passRoots []H
	if !v4 && appendData == nil {
		passRoots = appendRoots
	}
	verify := func(tree, leaf []H, or, nr H) bool {
		return verifyWith(c.Freed, wactions, tree, leaf, or, nr, passRoots)
	}
	if !verify(wantTree, wantLeaf, oldRoot, newRoot) {
		return fail("complete", "honest proof rejected (old %s new %s, touched %v)", short(oldRoot), short(newRoot), touched)
	}
	if err := twice("C16/"+c.Kind, desc, [][]H{wantTree, wantLeaf, passRoots}, func(l [][]H) bool {
		if v4 {
			return rhp4.VerifyFreeSectorsProof(l[0], l[1], c.Freed, un, oldRoot, newRoot)
		}
		var ar []H
		if passRoots != nil {
			ar = l[2]
		}
		return rhp2.VerifyDiffProof(wactions, un, l[0], l[1], oldRoot, newRoot, ar)
	}); err != nil {
		return err
	}

	rng := sm64(c.Seed ^ uint64(n)<<32 ^ uint64(len(acts)))
	rj := newRejector("C16/"+c.Kind, desc)
	heavy := appendData != nil // every verification hashes 4 MiB per append: sample
	full := c.Full && !heavy
	for _, i := range positions(len(wantTree), full, &rng) {
		p := cloneH(wantTree)
		p[i] = flipBit(p[i], rng.next())
		if err := rj.must("tree-hash", verify(p, wantLeaf, oldRoot, newRoot), "treeHashes[%d]", i); err != nil {
			return err
		}
		if heavy {
			break
		}
	}
	for _, i := range positions(len(wantLeaf), full, &rng) {
		p := cloneH(wantLeaf)
		p[i] = flipBit(p[i], rng.next())
		if err := rj.must("leaf-hash", verify(wantTree, p, oldRoot, newRoot), "leafHashes[%d] (sector %d)", i, touched[i]); err != nil {
			return err
		}
		if heavy {
			break
		}
	}
	if err := rj.must("old-root", verify(wantTree, wantLeaf, flipBit(oldRoot, rng.next()), newRoot), "old root"); err != nil {
		return err
	}
	if err := rj.must("new-root", verify(wantTree, wantLeaf, oldRoot, flipBit(newRoot, rng.next())), "new root"); err != nil {
		return err
	}
	extra := leafOf(c.Seed, 1<<40)
	if len(wantTree) > 0 {
		if err := rj.must("proof-short", verify(without(wantTree, len(wantTree)-1), wantLeaf, oldRoot, newRoot), "last tree hash dropped"); err != nil {
			return err
		}
		if !heavy {
			if err := rj.must("proof-short", verify(without(wantTree, 0), wantLeaf, oldRoot, newRoot), "first tree hash dropped"); err != nil {
				return err
			}
		}
	}
	if err := rj.must("proof-long", verify(with(wantTree, len(wantTree), extra), wantLeaf, oldRoot, newRoot), "extra tree hash appended"); err != nil {
		return err
	}
	if !heavy {
		if err := rj.must("proof-long", verify(with(wantTree, 0, extra), wantLeaf, oldRoot, newRoot), "extra tree hash prepended"); err != nil {
			return err
		}
		if len(wantLeaf) > 0 {
			if err := rj.must("leaf-short", verify(wantTree, without(wantLeaf, len(wantLeaf)-1), oldRoot, newRoot), "last leaf hash dropped"); err != nil {
				return err
			}
		}
		if err := rj.must("leaf-long", verify(wantTree, with(wantLeaf, len(wantLeaf), extra), oldRoot, newRoot), "extra leaf hash appended"); err != nil {
			return err
		}
	}
	// covered data of appends
	survives := func(i int) bool { // an appended sector that is trimmed or overwritten again is not covered by the new root
		for _, h := range newList {
			if h == appendRoots[i] {
				return true
			}
		}
		return false
	}
	if !v4 && nApp > 0 {
		if appendData == nil {
			for _, i := range positions(nApp, full, &rng) {
				if !survives(i) {
					stats.G().Label("diff:append-not-surviving-skipped")
					continue
				}
				ar := cloneH(appendRoots)
				ar[i] = flipBit(ar[i], rng.next())
				if err := rj.must("append-root", verifyWith(nil, wactions, wantTree, wantLeaf, oldRoot, newRoot, ar), "appendRoots[%d]", i); err != nil {
					return err
				}
			}
		} else {
			i := int(rng.next() % uint64(nApp))
			pos := rng.next() % rhp2.SectorSize
			if survives(i) {
				appendData[i][pos] ^= 0x10
				acc := verify(wantTree, wantLeaf, oldRoot, newRoot)
				appendData[i][pos] ^= 0x10
				if err := rj.must("append-data", acc, "byte %d of the data of append #%d", pos, i); err != nil {
					return err
				}
			} else {
				stats.G().Label("diff:append-not-surviving-skipped")
			}
		}
	}
	// indices: alter one index / one action operand, keep the list admissible; skip the
	// alterations that describe the very same operation (same touched set, same result)
	// classify says whether an altered list is admissible, and if so whether it skips the
	// assertion: "equivalent" (nothing false is being claimed) or in the class of the open
	// known finding keyIndexUnbound (altered list refers to a different set of old sectors).
	classify := func(acts2 []Act, call func() bool) (skip, ok bool) {
		nl, tc, ok := refApply(leaves, acts2, appendRoots)
		if !ok {
			return false, false
		}
		if sameInts(tc, touched) && eqHashes(nl, newList) {
			stats.G().Label(c.Kind + ":equivalent-alteration-skipped")
			return true, true
		}
		if !sameInts(tc, touched) && stats.KnownOpen(keyIndexUnbound) && call() {
			// the open known finding: tolerated (and counted) only where it actually manifests;
			// every other alteration of this kind is still required to be rejected below
			stats.G().Excluded(keyIndexUnbound)
			if knownShown++; n <= 16 && knownShown <= 3 {
				stats.G().Label(fmt.Sprintf("known-accepted: n=%d proof-for=%v%v presented-as=%v", n, c.Freed, c.Acts, acts2))
			}
			return true, true
		}
		return false, true
	}
	if v4 {
		used := map[uint64]bool{}
		for _, f := range c.Freed {
			used[f] = true
		}
		for _, k := range positions(len(c.Freed), full, &rng) {
			var cands []uint64
			if full {
				for x := 0; x < n; x++ {
					cands = append(cands, uint64(x))
				}
			} else {
				cands = []uint64{0, uint64(n - 1), c.Freed[k] + 1, c.Freed[k] - 1, rng.next() % un, rng.next() % un}
			}
			for _, x := range cands {
				if x >= un || used[x] {
					continue
				}
				f2 := append([]uint64{}, c.Freed...)
				f2[k] = x
				call := func() bool { return verifyWith(f2, nil, wantTree, wantLeaf, oldRoot, newRoot, nil) }
				if skip, _ := classify(freeActs(f2, n), call); skip {
					continue
				}
				if err := rj.must("index", call(), "freed[%d] %d -> %d", k, c.Freed[k], x); err != nil {
					return err
				}
			}
			if k+1 < len(c.Freed) {
				f2 := append([]uint64{}, c.Freed...)
				f2[k], f2[k+1] = f2[k+1], f2[k]
				call := func() bool { return verifyWith(f2, nil, wantTree, wantLeaf, oldRoot, newRoot, nil) }
				if skip, _ := classify(freeActs(f2, n), call); skip {
				} else if err := rj.must("index-order", call(), "freed[%d] and freed[%d] exchanged", k, k+1); err != nil {
					return err
				}
			}
		}
	} else if !heavy {
		for _, k := range positions(len(acts), full, &rng) {
			a := acts[k]
			var alts []Act
			switch a.T {
			case "swap":
				alts = []Act{{T: "swap", A: a.A + 1, B: a.B}, {T: "swap", A: a.A - 1, B: a.B}, {T: "swap", A: a.A, B: a.B + 1}, {T: "swap", A: a.A, B: a.B - 1},
					{T: "swap", A: rng.next() % (un + 4), B: a.B}, {T: "swap", A: a.A, B: rng.next() % (un + 4)}}
			case "trim":
				alts = []Act{{T: "trim", A: a.A + 1}, {T: "trim", A: a.A - 1}}
			}
			for _, alt := range alts {
				acts2 := append([]Act{}, acts...)
				acts2[k] = alt
				call := func() bool {
					return verifyWith(nil, toV2(acts2, appendData), wantTree, wantLeaf, oldRoot, newRoot, passRoots)
				}
				skip, ok := classify(acts2, call)
				if !ok || skip {
					continue // !ok: out of bounds for the list at that moment, outside the verifier's preconditions
				}
				if err := rj.must("index", call(), "action %d %+v -> %+v", k, a, alt); err != nil {
					return err
				}
			}
		}
	}
	rj.report()

	touchesLast := len(touched) > 0 && touched[len(touched)-1] == n-1
	nt := !isPow2(n) || touchesLast
	labels := []string{"kind:" + c.Kind}
	if touchesLast {
		labels = append(labels, "diff:touches-last")
	}
	if len(newList) > n {
		labels = append(labels, "diff:grows")
	} else if len(newList) < n {
		labels = append(labels, "diff:shrinks")
	}
	if len(newList) == 0 && n > 0 {
		labels = append(labels, "diff:empties")
	}
	if heavy {
		labels = append(labels, "diff:append-with-data")
	}
	var fp uint64
	if v4 {
		fp = stats.FP("free", n, fmt.Sprint(c.Freed))
	} else {
		fp = stats.FP("diff", n, fmt.Sprint(c.Acts), c.Data)
	}
	stats.G().Case(fp, nt, labels...)
	if stats.G().WantSample() {
		stats.G().Sample(nt, map[string]any{"case": c, "touched": touched, "tree_hashes": len(wantTree), "leaf_hashes": len(wantLeaf), "corruptions_rejected": rj.n})
	}
	return nil
}

// ---- enumerators ---------------------------------------------------------------------------

const enumSeed = 0xC16

// TestEnumRange: every (n, start, end) with 0 <= start < end <= n <= bound; every
// corruption position.
func TestEnumRange(t *testing.T) {
	bound := stats.EnvInt("C16_RANGE_N", 24)
	shard, ns := stats.Shard()
	total := 0
	for n := 1; n <= bound; n++ {
		if n%ns != shard {
			continue // one tree per n: shard by n
		}
		for start := 0; start < n; start++ {
			for end := start + 1; end <= n; end++ {
				total++
				stats.Check(t, ProofCase{Path: curPath(), Kind: "range", N: n, Seed: enumSeed, Start: start, End: end, Full: true}, checkProof)
			}
		}
	}
	if shard == 0 && curPath() == "generic" || !hwAVX2 && shard == 0 {
		stats.G().Extra("enum_range_bound_n", uint64(bound)) // reported once, not summed over shards
	}
	stats.G().Extra("enum_range_cases_"+curPath(), uint64(total))
}

// TestEnumAppend: every (n <= 64, batch <= 8).
func TestEnumAppend(t *testing.T) {
	boundN, boundB := stats.EnvInt("C16_APPEND_N", 64), stats.EnvInt("C16_APPEND_B", 8)
	shard, ns := stats.Shard()
	total := 0
	for n := 0; n <= boundN; n++ {
		if n%ns != shard {
			continue
		}
		for b := 0; b <= boundB; b++ {
			total++
			stats.Check(t, ProofCase{Path: curPath(), Kind: "append", N: n, Seed: enumSeed, Batch: b, Full: true}, checkProof)
		}
	}
	stats.G().Extra("enum_append_cases_"+curPath(), uint64(total))
}

// TestEnumFree: every ordered list of distinct indices below n, n <= bound.
func TestEnumFree(t *testing.T) {
	bound := stats.EnvInt("C16_FREE_N", 7)
	shard, ns := stats.Shard()
	total, idx := 0, 0
	var rec func(n int, cur []uint64, used uint32)
	rec = func(n int, cur []uint64, used uint32) {
		if idx++; idx%ns == shard {
			total++
			stats.Check(t, ProofCase{Path: curPath(), Kind: "free", N: n, Seed: enumSeed, Freed: append([]uint64{}, cur...), Full: true}, checkProof)
		}
		for x := 0; x < n; x++ {
			if used&(1<<x) == 0 {
				rec(n, append(cur, uint64(x)), used|1<<x)
			}
		}
	}
	for n := 0; n <= bound; n++ {
		rec(n, nil, 0)
	}
	if shard == 0 && curPath() == "generic" || !hwAVX2 && shard == 0 {
		stats.G().Extra("enum_free_bound_n", uint64(bound)) // reported once, not summed over shards
	}
	stats.G().Extra("enum_free_cases_"+curPath(), uint64(total))
}

// ---- random proofs -------------------------------------------------------------------------

func drawN(t *rapid.T, allowZero bool) int {
	lo := 1
	if allowZero {
		lo = 0
	}
	switch k := rapid.IntRange(0, 99).Draw(t, "nclass"); {
	case k < 35:
		return rapid.IntRange(lo, 64).Draw(t, "n")
	case k < 70:
		return rapid.IntRange(65, 2000).Draw(t, "n")
	case k < 90: // around a power of two
		p := 1 << rapid.IntRange(1, 12).Draw(t, "pow")
		n := p + rapid.IntRange(-2, 2).Draw(t, "d")
		if n < lo {
			n = lo
		}
		return n
	case k < 97:
		return rapid.IntRange(2001, 9000).Draw(t, "n")
	default:
		return rapid.SampledFrom([]int{65535, 65536, 65537, 70000, 131073, 196609, 262145, 331922, 458753}).Draw(t, "nbig")
	}
}

// drawIndex is biased to the places where the binary structure of an index changes.
func drawIndex(t *rapid.T, lo, hi int, label string) int {
	if lo >= hi {
		return lo
	}
	var v int
	switch rapid.IntRange(0, 5).Draw(t, label+"class") {
	case 0:
		v = lo + rapid.IntRange(0, 3).Draw(t, label+"d")
	case 1:
		v = hi - rapid.IntRange(0, 3).Draw(t, label+"d")
	case 2:
		v = (1 << rapid.IntRange(0, 16).Draw(t, label+"pow")) + rapid.IntRange(-1, 1).Draw(t, label+"d")
	case 3:
		v = 64*rapid.IntRange(0, 1024).Draw(t, label+"m64") + rapid.IntRange(-1, 1).Draw(t, label+"d")
	default:
		v = rapid.IntRange(lo, hi).Draw(t, label)
	}
	if v < lo {
		v = lo
	}
	if v > hi {
		v = hi
	}
	return v
}

func drawActs(t *rapid.T, n int, withData bool) []Act {
	cur := n
	k := rapid.IntRange(0, 8).Draw(t, "nacts")
	acts := []Act{}
	apps := 0
	for i := 0; i < k; i++ {
		switch op := rapid.IntRange(0, 9).Draw(t, "op"); {
		case op < 3:
			if withData && apps >= 2 {
				continue
			}
			apps++
			acts = append(acts, Act{T: "append"})
			cur++
		case op < 7:
			if cur == 0 {
				continue
			}
			a := drawIndex(t, 0, cur-1, "swapa")
			b := drawIndex(t, 0, cur-1, "swapb")
			acts = append(acts, Act{T: "swap", A: uint64(a), B: uint64(b)})
		default:
			var a int
			if rapid.IntRange(0, 7).Draw(t, "trimall") == 0 {
				a = cur
			} else {
				max := cur
				if max > 5 {
					max = 5
				}
				a = rapid.IntRange(0, max).Draw(t, "trim")
			}
			acts = append(acts, Act{T: "trim", A: uint64(a)})
			cur -= a
		}
	}
	return acts
}

func drawProof(t *rapid.T) ProofCase {
	c := ProofCase{Path: curPath(), Seed: rapid.Uint64().Draw(t, "seed")}
	c.Kind = rapid.SampledFrom([]string{"range", "range", "range", "append", "free", "free", "diff", "diff", "diff"}).Draw(t, "kind")
	switch c.Kind {
	case "range":
		c.N = drawN(t, false)
		c.Start = drawIndex(t, 0, c.N-1, "start")
		if rapid.IntRange(0, 3).Draw(t, "single") == 0 {
			c.End = c.Start + 1
		} else {
			c.End = drawIndex(t, c.Start+1, c.N, "end")
		}
	case "append":
		c.N = drawN(t, true)
		c.Batch = rapid.SampledFrom([]int{0, 1, 1, 2, 3, 5, 8, 13, 64, 100}).Draw(t, "batch")
	case "free":
		c.N = drawN(t, true)
		if c.N > 9000 {
			c.N = 9000
		}
		max := c.N
		if max > 12 && rapid.IntRange(0, 9).Draw(t, "many") > 0 {
			max = 12
		} else if max > 300 {
			max = 300
		}
		k := rapid.IntRange(0, max).Draw(t, "nfreed")
		seen := map[uint64]bool{}
		tail := rapid.Bool().Draw(t, "tailbias")
		for i := 0; i < k; i++ {
			var x int
			if tail && rapid.Bool().Draw(t, "tail") {
				x = c.N - 1 - rapid.IntRange(0, min(c.N-1, 2*k)).Draw(t, "fromend")
			} else {
				x = drawIndex(t, 0, c.N-1, "freed")
			}
			if !seen[uint64(x)] {
				seen[uint64(x)] = true
				c.Freed = append(c.Freed, uint64(x))
			}
		}
		if rapid.IntRange(0, 3).Draw(t, "sorted") == 0 {
			sort.Slice(c.Freed, func(i, j int) bool { return c.Freed[i] < c.Freed[j] })
		}
	case "diff":
		c.N = drawN(t, true)
		if c.N > 9000 {
			c.N = 9000
		}
		c.Data = rapid.IntRange(0, 39).Draw(t, "withdata") == 0
		c.Acts = drawActs(t, c.N, c.Data)
	}
	c.Full = c.N <= 48
	return c
}

func TestProofs(t *testing.T) { stats.Prop(t, drawProof, checkProof) }

func TestReplayProofs(t *testing.T)    { restorePath(t); stats.Replay(t, "TestProofs", checkProof) }
func TestReplayEnumRange(t *testing.T) { restorePath(t); stats.Replay(t, "TestEnumRange", checkProof) }
func TestReplayEnumAppend(t *testing.T) {
	restorePath(t)
	stats.Replay(t, "TestEnumAppend", checkProof)
}
func TestReplayEnumFree(t *testing.T) { restorePath(t); stats.Replay(t, "TestEnumFree", checkProof) }
