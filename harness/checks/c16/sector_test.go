package c16

import (
	"bytes"
	"fmt"
	"io"
	"runtime"
	"testing"

	rhp2 "go.sia.tech/core/rhp/v2"
	rhp4 "go.sia.tech/core/rhp/v4"
	"pgregory.net/rapid"
	"verif/harness/stats"
)

const lps = rhp2.LeavesPerSector // 65536 leaves of 64 bytes

// RangeSpec is one leaf range of a sector and the way BuildProof is given precomputed
// subtree roots: "nil" (none), "all" (every root it asks for), "some" (a pseudo-random half).
type RangeSpec struct {
	Start   int    `json:"start"`
	End     int    `json:"end"`
	Precalc string `json:"precalc"`
}

// SectorCase: one 4 MiB sector (deterministic content), its roots through every entry
// point, and a few leaf ranges with proofs.
type SectorCase struct {
	Path    string      `json:"path"`
	Fill    string      `json:"fill"` // random | zero | ff | onebit | sparse | repeat
	Seed    uint64      `json:"seed"`
	Pos     int         `json:"pos"`
	Chunk   Chunk       `json:"chunk"`
	Partial int         `json:"partial"` // >= 0: also stream only the first Partial bytes
	ErrAt   int         `json:"err_at"`  // >= 0: also stream through a reader failing after ErrAt bytes
	Ranges  []RangeSpec `json:"ranges"`
}

func fillSector(b []byte, c SectorCase) {
	switch c.Fill {
	case "random":
		fillBytes(b, c.Seed)
	case "zero":
	case "ff":
		for i := range b {
			b[i] = 0xff
		}
	case "onebit":
		p := c.Pos % (len(b) * 8)
		b[p/8] |= 1 << (p % 8)
	case "sparse":
		fillBytes(b[:256], c.Seed)
	case "repeat":
		fillBytes(b[:64], c.Seed)
		for i := 64; i < len(b); i += 64 {
			copy(b[i:], b[:64])
		}
	}
}

func checkSector(c SectorCase) error {
	usePath(c.Path)
	rec := stats.G()
	desc := fmt.Sprintf("sector fill=%s seed=%d pos=%d path=%s", c.Fill, c.Seed, c.Pos, curPath())
	fail := func(key, format string, args ...any) error {
		return stats.Failf("C16/sector/"+key, "%s: %s", desc, fmt.Sprintf(format, args...))
	}
	sector := new([rhp2.SectorSize]byte)
	fillSector(sector[:], c)
	lh := make([]H, lps)
	for i := range lh {
		lh[i] = refLeafFast(sector[i*64:][:64])
	}
	t := newRefTree(lh)
	root := t.root()
	alt := c.Seed>>8&1 == 1 // which package's thin wrapper is used where both exist

	// ---- roots
	if got := rhp2.SectorRoot(sector); got != root {
		return fail("root", "rhp2.SectorRoot = %s want %s", short(got), short(root))
	}
	if got := rhp4.SectorRoot((*[rhp4.SectorSize]byte)(sector)); got != root {
		return fail("root", "rhp4.SectorRoot = %s want %s", short(got), short(root))
	}
	only := -1
	if c.Chunk.Mode == "one" || c.Chunk.Mode == "zero" && c.Chunk.Max < 8 || c.Chunk.Mode != "exact" && c.Chunk.Max < 3 {
		only = int(c.Seed % 3) // tiny reads over 4 MiB are slow: one entry point per case
	}
	readSectorRoot := func(r io.Reader) (H, error) {
		if alt {
			return rhp4.ReadSectorRoot(r)
		}
		return rhp2.ReadSectorRoot(r)
	}
	readSector := func(r io.Reader) (H, []byte, error) {
		if alt {
			h, s, err := rhp2.ReadSector(r)
			if s == nil {
				return h, nil, err
			}
			return h, s[:], err
		}
		h, s, err := rhp4.ReadSector(r)
		if s == nil {
			return h, nil, err
		}
		return h, s[:], err
	}
	readerRoot := func(r io.Reader) (H, error) {
		if alt {
			return rhp4.ReaderRoot(r)
		}
		return rhp2.ReaderRoot(r)
	}
	if only < 0 || only == 0 {
		got, err := readSectorRoot(newChunkReader(sector[:], c.Chunk))
		if err != nil || got != root {
			return fail("stream", "ReadSectorRoot(chunk %+v) = %s, %v; want %s", c.Chunk, short(got), err, short(root))
		}
	}
	if only < 0 || only == 1 {
		got, data, err := readSector(newChunkReader(sector[:], c.Chunk))
		if err != nil || got != root {
			return fail("stream", "ReadSector(chunk %+v) = %s, %v; want %s", c.Chunk, short(got), err, short(root))
		}
		if !bytes.Equal(data, sector[:]) {
			return fail("stream", "ReadSector(chunk %+v) returned different sector data", c.Chunk)
		}
	}
	if only < 0 || only == 2 {
		got, err := readerRoot(newChunkReader(sector[:], c.Chunk))
		if err != nil || got != root {
			return fail("stream", "ReaderRoot(chunk %+v) = %s, %v; want %s", c.Chunk, short(got), err, short(root))
		}
	}
	labels := []string{"kind:sector", "fill:" + c.Fill, "chunk:" + c.Chunk.Mode}

	// ---- partial stream
	if c.Partial >= 0 && c.Partial < rhp2.SectorSize {
		l := c.Partial
		pc := c.Chunk
		if l > 1<<18 && only >= 0 {
			pc.Mode, pc.Max = "short", 4096
		}
		got, err := readSectorRoot(newChunkReader(sector[:l], pc))
		if l%64 != 0 {
			if err == nil {
				return fail("partial", "ReadSectorRoot of %d bytes (not a whole number of leaves) returned %s and no error", l, short(got))
			}
			labels = append(labels, "partial:illegal-length")
		} else {
			// the rest of the sector counts as zeros (the library's own TestPartialReadSectorRoot)
			zero := refLeafFast(make([]byte, 64))
			padded := make([]H, lps)
			copy(padded, lh[:l/64])
			for i := l / 64; i < lps; i++ {
				padded[i] = zero
			}
			if want := newRefTree(padded).root(); err != nil || got != want {
				return fail("partial-root", "ReadSectorRoot of the first %d bytes = %s, %v; want the root of the zero-padded sector %s", l, short(got), err, short(want))
			}
			labels = append(labels, "partial:zero-padded")
		}
		if _, data, err := readSector(newChunkReader(sector[:l], pc)); err == nil {
			return fail("partial", "ReadSector of %d bytes returned no error (data %d bytes)", l, len(data))
		}
		got, err = readerRoot(newChunkReader(sector[:l], pc))
		if l%64 != 0 {
			if err == nil {
				return fail("partial", "ReaderRoot of %d bytes returned %s and no error", l, short(got))
			}
		} else if want := t.mth(0, l/64); err != nil || got != want {
			return fail("partial", "ReaderRoot of the first %d leaves = %s, %v; want %s", l/64, short(got), err, short(want))
		}
	}

	// ---- failing reader
	if c.ErrAt >= 0 && c.ErrAt < rhp2.SectorSize {
		ec := c.Chunk
		ec.ErrAt = c.ErrAt
		if only >= 0 {
			ec.Mode, ec.Max = "short", 4096
		}
		if got, err := readSectorRoot(newChunkReader(sector[:], ec)); err == nil {
			return fail("reader-error", "ReadSectorRoot swallowed a reader failure at byte %d and returned %s", c.ErrAt, short(got))
		}
		if _, _, err := readSector(newChunkReader(sector[:], ec)); err == nil {
			return fail("reader-error", "ReadSector swallowed a reader failure at byte %d", c.ErrAt)
		}
		if got, err := readerRoot(newChunkReader(sector[:], ec)); err == nil {
			return fail("reader-error", "ReaderRoot swallowed a reader failure at byte %d and returned %s", c.ErrAt, short(got))
		}
		labels = append(labels, "reader:failing")
	}

	// ---- cached subtrees
	cache := make([]H, lps/64)
	for i := range cache {
		cache[i] = t.mth(i*64, (i+1)*64)
	}
	if got := rhp4.CachedSectorSubtrees((*[rhp4.SectorSize]byte)(sector)); !eqHashes(got, cache) {
		for i := range cache {
			if i >= len(got) || got[i] != cache[i] {
				return fail("cache", "CachedSectorSubtrees[%d] differs from the root of leaves [%d,%d) (len %d)", i, i*64, i*64+64, len(got))
			}
		}
		return fail("cache", "CachedSectorSubtrees has %d entries", len(got))
	}

	nt := c.Fill != "zero" && c.Fill != "ff" || c.Chunk.Mode != "exact"
	rec.Case(stats.FP("sector", c.Fill, c.Seed, c.Pos, c.Chunk.Mode, c.Chunk.Max, c.Chunk.Seed, c.Partial, c.ErrAt), nt, labels...)
	rec.Extra("sectors_hashed_"+curPath(), 1)
	rec.Label(fmt.Sprintf("cpus:%d/gomaxprocs:%d", runtime.NumCPU(), runtime.GOMAXPROCS(0)))

	for _, rs := range c.Ranges {
		if err := checkSectorRange(c, rs, sector, t, cache); err != nil {
			return err
		}
	}
	if rec.WantSample() {
		rec.Sample(nt, c)
	}
	return nil
}

func checkSectorRange(c SectorCase, rs RangeSpec, sector *[rhp2.SectorSize]byte, t *refTree, cache []H) error {
	s, e := rs.Start, rs.End
	if !(0 <= s && s < e && e <= lps) {
		return stats.Failf("", "harness: inadmissible leaf range")
	}
	desc := fmt.Sprintf("sector fill=%s seed=%d pos=%d path=%s leaves [%d,%d) precalc=%s", c.Fill, c.Seed, c.Pos, curPath(), s, e, rs.Precalc)
	fail := func(key, format string, args ...any) error {
		return stats.Failf("C16/sector-range/"+key, "%s: %s", desc, fmt.Sprintf(format, args...))
	}
	us, ue := uint64(s), uint64(e)
	lh := t.leaves
	root := t.root()
	want := t.rangeProof(s, e)
	data := sector[s*64 : e*64]

	// ---- builders == reference
	var precalc func(i, j uint64) H
	switch rs.Precalc {
	case "all":
		precalc = func(i, j uint64) H { return t.mth(int(i), int(j)) }
	case "some":
		precalc = func(i, j uint64) H {
			if leafOf(c.Seed, i<<20^j)[0]&1 == 0 {
				return H{}
			}
			return t.mth(int(i), int(j))
		}
	}
	if got := rhp2.BuildProof(sector, us, ue, precalc); !eqHashes(got, want) {
		return fail("build", "rhp2.BuildProof = %s, tree definition gives %s", showHashes(got), showHashes(want))
	}
	if sz := rhp2.RangeProofSize(lps, us, ue); sz != uint64(len(want)) {
		return fail("size", "RangeProofSize = %d, proof has %d hashes", sz, len(want))
	}
	segS, segE := rhp4.SectorSubtreeRange(us, ue)
	if int(segS) != s/64*64 || int(segE) != (e+63)/64*64 {
		return fail("segment", "SectorSubtreeRange = [%d,%d)", segS, segE)
	}
	if got := rhp4.BuildSectorProof(sector[segS*64:segE*64], us, ue, cache); !eqHashes(got, want) {
		return fail("build", "rhp4.BuildSectorProof = %s, tree definition gives %s", showHashes(got), showHashes(want))
	}

	// ---- completeness
	newVerifier := func(s, e int) *rhp2.RangeProofVerifier {
		if c.Seed>>9&1 == 1 {
			return rhp4.NewRangeProofVerifier(uint64(s), uint64(e))
		}
		return rhp2.NewRangeProofVerifier(uint64(s), uint64(e))
	}
	rc := c.Chunk
	if e-s > 4096 && (rc.Mode == "one" || rc.Max < 8) {
		rc.Mode, rc.Max = "short", 1000
	}
	rpv := newVerifier(s, e)
	if _, err := rpv.ReadFrom(newChunkReader(data, rc)); err != nil {
		return fail("complete", "RangeProofVerifier.ReadFrom(chunk %+v): %v", rc, err)
	}
	verify := func(proof []H, root H) bool {
		v := *rpv // Verify consumes the ingested subtree roots: work on a copy
		return v.Verify(proof, root)
	}
	if !verify(cloneH(want), root) {
		return fail("complete", "RangeProofVerifier rejected the honest proof (chunk %+v)", rc)
	}
	// one verifier, several downloads (a renter retrying a range keeps its verifier): each cycle is judged on the data
	// of that cycle alone - honest, then one flipped data bit, then honest again
	if c.Seed>>11&3 == 0 && e-s <= 8192 {
		re := newVerifier(s, e)
		bad := append([]byte(nil), data...)
		bad[(int(c.Seed>>13)%len(bad))] ^= 1 << (c.Seed >> 5 & 7)
		for cycle, in := range [][]byte{data, bad, data} {
			if _, err := re.ReadFrom(newChunkReader(in, rc)); err != nil {
				return fail("verifier-reuse", "cycle %d: ReadFrom: %v", cycle, err)
			}
			got := re.Verify(cloneH(want), root)
			if wantOK := cycle != 1; got != wantOK {
				return fail("verifier-reuse", "one RangeProofVerifier used for three downloads (honest, one flipped bit, honest): cycle %d returned %v", cycle, got)
			}
		}
		stats.G().Label("range-verifier-reused")
	}
	single := e == s+1
	var leaf [64]byte
	if single {
		copy(leaf[:], data)
		if !rhp4.VerifyLeafProof(cloneH(want), leaf, us, root) {
			return fail("complete", "VerifyLeafProof rejected the honest proof")
		}
		conv := rhp2.ConvertProofOrdering(cloneH(want), us)
		if p := t.path(s); !eqHashes(conv, p) {
			return fail("convert", "ConvertProofOrdering = %s, leaf-to-root path is %s", showHashes(conv), showHashes(p))
		}
	}
	if e-s <= 4096 && !rhp2.VerifySectorRangeProof(cloneH(want), lh[s:e], us, ue, lps, root) {
		return fail("complete", "VerifySectorRangeProof over leaf hashes rejected the honest proof")
	}
	if single || e-s <= 4096 {
		if err := twice("C16/sector-range", desc, [][]H{want, lh[s:e]}, func(l [][]H) bool {
			ok := true
			if single {
				ok = ok && rhp4.VerifyLeafProof(l[0], leaf, us, root)
			}
			if e-s <= 4096 {
				ok = ok && rhp2.VerifySectorRangeProof(l[0], l[1], us, ue, lps, root)
			}
			return ok
		}); err != nil {
			return err
		}
	}

	// ---- soundness
	rng := sm64(c.Seed ^ uint64(s)<<24 ^ uint64(e))
	rj := newRejector("C16/sector-range", desc)
	for i := range want {
		p := cloneH(want)
		p[i] = flipBit(p[i], rng.next())
		if err := rj.must("proof-hash", verify(p, root), "proof[%d]", i); err != nil {
			return err
		}
		if single {
			if err := rj.must("proof-hash", rhp4.VerifyLeafProof(p, leaf, us, root), "VerifyLeafProof proof[%d]", i); err != nil {
				return err
			}
		}
	}
	if err := rj.must("root", verify(cloneH(want), flipBit(root, rng.next())), "root"); err != nil {
		return err
	}
	extra := leafOf(c.Seed, 1<<40)
	if len(want) > 0 {
		if err := rj.must("proof-short", verify(without(want, len(want)-1), root), "last proof hash dropped"); err != nil {
			return err
		}
		if err := rj.must("proof-short", verify(without(want, 0), root), "first proof hash dropped"); err != nil {
			return err
		}
	}
	if err := rj.must("proof-long", verify(with(want, len(want), extra), root), "extra hash appended"); err != nil {
		return err
	}
	if err := rj.must("proof-long", verify(with(want, 0, extra), root), "extra hash prepended"); err != nil {
		return err
	}
	// covered data
	fresh := func(s, e int, data []byte) (bool, error) {
		v := newVerifier(s, e)
		if _, err := v.ReadFrom(bytes.NewReader(data)); err != nil {
			return false, err
		}
		return v.Verify(cloneH(want), root), nil
	}
	buf := append([]byte{}, data...)
	for _, li := range []int{0, e - s - 1, int(rng.next() % uint64(e-s))} {
		pos := li*64 + int(rng.next()%64)
		buf[pos] ^= 1 << (rng.next() % 8)
		acc, err := fresh(s, e, buf)
		buf[pos] = data[pos]
		if err != nil {
			return fail("complete", "ReadFrom: %v", err)
		}
		if err := rj.must("covered-data", acc, "byte %d of leaf %d", pos%64, s+li); err != nil {
			return err
		}
	}
	for _, cut := range []int{64, 1, 65} {
		if cut > len(data) {
			continue
		}
		acc, err := fresh(s, e, data[:len(data)-cut])
		if err := rj.must("data-truncated", err == nil && acc, "last %d bytes of the range missing", cut); err != nil {
			return err
		}
	}
	if single {
		l2 := leaf
		l2[rng.next()%64] ^= 1 << (rng.next() % 8)
		if err := rj.must("covered-data", rhp4.VerifyLeafProof(cloneH(want), l2, us, root), "VerifyLeafProof leaf byte"); err != nil {
			return err
		}
		if err := rj.must("root", rhp4.VerifyLeafProof(cloneH(want), leaf, us, flipBit(root, rng.next())), "VerifyLeafProof root"); err != nil {
			return err
		}
	}
	// indices (only meaningful when the leaves differ from one another)
	if c.Fill == "random" {
		l := e - s
		for _, s2 := range []int{s - 1, s + 1, s - 64, s + 64, s ^ 1<<(rng.next()%16)} {
			if s2 < 0 || s2+l > lps || s2 == s {
				continue
			}
			if refVerifyRange(lps, s2, s2+l, want, lh[s:e], root) {
				stats.G().Label("sector-range:equivalent-shift-skipped")
				continue
			}
			acc, err := fresh(s2, s2+l, data)
			if err != nil {
				return fail("complete", "ReadFrom: %v", err)
			}
			if err := rj.must("index-shift", acc, "range claimed as [%d,%d)", s2, s2+l); err != nil {
				return err
			}
			if single {
				if err := rj.must("index-shift", rhp4.VerifyLeafProof(cloneH(want), leaf, uint64(s2), root), "VerifyLeafProof index %d", s2); err != nil {
					return err
				}
			}
		}
	}
	rj.report()

	nt := !alignedSubtree(s, e)
	labels := []string{"kind:sector-range", "precalc:" + rs.Precalc}
	if single {
		labels = append(labels, "sector-range:single-leaf")
	}
	if !nt {
		labels = append(labels, "sector-range:aligned-subtree")
	}
	stats.G().Case(stats.FP("sector-range", s, e), nt, labels...)
	return nil
}

func drawSector(t *rapid.T) SectorCase {
	c := SectorCase{Path: curPath(), Partial: -1, ErrAt: -1}
	c.Fill = rapid.SampledFrom([]string{"random", "random", "random", "random", "random", "random", "zero", "ff", "onebit", "onebit", "onebit", "sparse", "sparse", "repeat"}).Draw(t, "fill")
	c.Seed = rapid.Uint64().Draw(t, "seed")
	c.Pos = rapid.IntRange(0, rhp2.SectorSize*8-1).Draw(t, "pos")
	c.Chunk = drawChunk(t, 0, false)
	if c.Chunk.Mode == "one" && rapid.IntRange(0, 3).Draw(t, "keepone") != 0 {
		c.Chunk.Mode = "short"
	}
	if rapid.IntRange(0, 3).Draw(t, "partial") == 0 {
		if rapid.IntRange(0, 9).Draw(t, "whole") < 7 {
			c.Partial = 64 * drawIndex(t, 0, lps-1, "pleaves")
		} else {
			c.Partial = rapid.IntRange(0, rhp2.SectorSize-1).Draw(t, "pbytes")
		}
	}
	if rapid.IntRange(0, 6).Draw(t, "failing") == 0 {
		c.ErrAt = rapid.IntRange(0, rhp2.SectorSize-1).Draw(t, "errat")
	}
	n := rapid.IntRange(1, 5).Draw(t, "nranges")
	for i := 0; i < n; i++ {
		rs := RangeSpec{Precalc: rapid.SampledFrom([]string{"nil", "all", "all", "some", "some"}).Draw(t, "precalc")}
		rs.Start = drawIndex(t, 0, lps-1, "start")
		switch rapid.IntRange(0, 9).Draw(t, "len") {
		case 0, 1:
			rs.End = rs.Start + 1
		case 2, 3, 4:
			rs.End = rs.Start + rapid.IntRange(2, 130).Draw(t, "l")
		case 5:
			rs.End = rs.Start + rapid.IntRange(2, lps).Draw(t, "ll")
		default:
			rs.End = drawIndex(t, rs.Start+1, lps, "end")
		}
		if rs.End > lps {
			rs.End = lps
		}
		c.Ranges = append(c.Ranges, rs)
	}
	return c
}

func TestSector(t *testing.T) { stats.Prop(t, drawSector, checkSector) }

func TestReplaySector(t *testing.T) { restorePath(t); stats.Replay(t, "TestSector", checkSector) }
