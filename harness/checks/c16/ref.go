// Reference model for C16: the plainly defined binary Merkle tree (RFC 6962 tree
// hash with Sia's 0x00 leaf / 0x01 node prefixes over BLAKE2b-256) and everything
// that can be read off that definition: range proofs, diff (multi-index) proofs,
// append proofs, leaf-to-root paths and a reference range-proof verifier.
//
// Nothing in this file calls go.sia.tech/core/rhp/* or go.sia.tech/core/blake2b.
// Hashing is golang.org/x/crypto/blake2b; every tree walk is plain recursion that
// splits n leaves at the largest power of two strictly smaller than n.
package c16

import (
	"encoding/binary"
	"errors"
	"io"
	"sort"

	"go.sia.tech/core/types"
	xb "golang.org/x/crypto/blake2b"
)

// H is a node hash. types.Hash256 is a plain [32]byte; it is not under test here.
type H = types.Hash256

// refLeaf is the leaf hash of one 64-byte leaf: BLAKE2b-256(0x00 || leaf). It uses
// the streaming interface of x/crypto (New256), refNode the one-shot one (Sum256).
func refLeaf(leaf []byte) H {
	h, err := xb.New256(nil)
	if err != nil {
		panic(err)
	}
	h.Write([]byte{0x00})
	h.Write(leaf)
	var out H
	h.Sum(out[:0])
	return out
}

// refLeafFast is the same value through Sum256 (used for whole sectors: 65 536 leaves).
func refLeafFast(leaf []byte) H {
	var buf [65]byte
	copy(buf[1:], leaf)
	return xb.Sum256(buf[:])
}

// refNode is the interior hash: BLAKE2b-256(0x01 || left || right).
func refNode(l, r H) H {
	var buf [65]byte
	buf[0] = 0x01
	copy(buf[1:33], l[:])
	copy(buf[33:], r[:])
	return xb.Sum256(buf[:])
}

// refPrefixed hashes prefix || 64 bytes (the primitive behind both of the above).
func refPrefixed(prefix byte, msg []byte) H {
	buf := make([]byte, 0, 65)
	buf = append(buf, prefix)
	buf = append(buf, msg...)
	return xb.Sum256(buf)
}

// splitPoint returns the largest power of two strictly smaller than n (n >= 2).
func splitPoint(n int) int {
	k := 1
	for k*2 < n {
		k *= 2
	}
	return k
}

func isPow2(n int) bool { return n > 0 && n&(n-1) == 0 }

// refTree is a list of leaf hashes with memoised subtree hashes.
type refTree struct {
	leaves []H
	memo   map[uint64]H
}

func newRefTree(leaves []H) *refTree {
	return &refTree{leaves: leaves, memo: make(map[uint64]H, len(leaves))}
}

func (t *refTree) n() int { return len(t.leaves) }

// mth is MTH(leaves[lo:hi]). The empty tree hashes to the zero hash (Sia convention;
// RFC 6962 would use H("")).
func (t *refTree) mth(lo, hi int) H {
	switch hi - lo {
	case 0:
		return H{}
	case 1:
		return t.leaves[lo]
	}
	key := uint64(lo)<<32 | uint64(hi)
	if h, ok := t.memo[key]; ok {
		return h
	}
	k := splitPoint(hi - lo)
	h := refNode(t.mth(lo, lo+k), t.mth(lo+k, hi))
	t.memo[key] = h
	return h
}

func (t *refTree) root() H { return t.mth(0, t.n()) }

// mthOf is the memo-free version for short lists.
func mthOf(leaves []H) H {
	switch len(leaves) {
	case 0:
		return H{}
	case 1:
		return leaves[0]
	}
	k := splitPoint(len(leaves))
	return refNode(mthOf(leaves[:k]), mthOf(leaves[k:]))
}

// rangeProof lists, left to right, the hashes of the maximal tree nodes disjoint from
// [start,end): exactly what is needed to recompute the root from leaves[start:end].
func (t *refTree) rangeProof(start, end int) []H {
	out := []H{}
	var rec func(lo, hi int)
	rec = func(lo, hi int) {
		switch {
		case hi == lo:
		case start <= lo && hi <= end:
		case hi <= start || end <= lo:
			out = append(out, t.mth(lo, hi))
		default:
			k := splitPoint(hi - lo)
			rec(lo, lo+k)
			rec(lo+k, hi)
		}
	}
	rec(0, t.n())
	return out
}

// refVerifyRange recomputes the root of an n-leaf tree from a range proof and the
// leaves of [start,end) by walking the tree definition; it accepts iff every proof
// hash is consumed and the result equals root.
func refVerifyRange(n, start, end int, proof, rangeLeaves []H, root H) bool {
	if len(rangeLeaves) != end-start {
		return false
	}
	ok := true
	var rec func(lo, hi int) H
	rec = func(lo, hi int) H {
		switch {
		case start <= lo && hi <= end:
			return mthOf(rangeLeaves[lo-start : hi-start])
		case hi <= start || end <= lo:
			if len(proof) == 0 {
				ok = false
				return H{}
			}
			h := proof[0]
			proof = proof[1:]
			return h
		}
		k := splitPoint(hi - lo)
		l := rec(lo, lo+k)
		r := rec(lo+k, hi)
		return refNode(l, r)
	}
	got := rec(0, n)
	return ok && len(proof) == 0 && got == root
}

// diffProof is the multi-index proof for the sorted index set touched (all < n): the
// leaf hashes at the touched indices, and, left to right, the hashes of the maximal
// *perfect* tree nodes containing no touched index. (Perfect, so that the same hashes
// can be re-used under a different leaf count after an append or a trim.)
func (t *refTree) diffProof(touched []int) (tree, leaf []H) {
	tree, leaf = []H{}, []H{}
	any := func(lo, hi int) bool {
		i := sort.SearchInts(touched, lo)
		return i < len(touched) && touched[i] < hi
	}
	var rec func(lo, hi int)
	rec = func(lo, hi int) {
		if hi == lo {
			return
		}
		if !any(lo, hi) {
			if isPow2(hi - lo) {
				tree = append(tree, t.mth(lo, hi))
				return
			}
		} else if hi-lo == 1 {
			leaf = append(leaf, t.leaves[lo])
			return
		}
		k := splitPoint(hi - lo)
		rec(lo, lo+k)
		rec(lo+k, hi)
	}
	rec(0, t.n())
	return
}

// appendProof lists the roots of the perfect subtrees along the right spine of the
// tree, smallest (right-most) first: what is needed to recompute the root and to go on
// appending.
func (t *refTree) appendProof() []H {
	var big []H
	lo, hi := 0, t.n()
	for hi > lo {
		if isPow2(hi - lo) {
			big = append(big, t.mth(lo, hi))
			break
		}
		k := splitPoint(hi - lo)
		big = append(big, t.mth(lo, lo+k))
		lo += k
	}
	out := make([]H, 0, len(big))
	for i := len(big) - 1; i >= 0; i-- {
		out = append(out, big[i])
	}
	return out
}

// path lists the sibling hashes of leaf idx from the leaf up to the root.
func (t *refTree) path(idx int) []H {
	var rec func(lo, hi int) []H
	rec = func(lo, hi int) []H {
		if hi-lo <= 1 {
			return []H{}
		}
		k := splitPoint(hi - lo)
		if idx < lo+k {
			return append(rec(lo, lo+k), t.mth(lo+k, hi))
		}
		return append(rec(lo+k, hi), t.mth(lo, lo+k))
	}
	return rec(0, t.n())
}

// ---- sector-list actions ------------------------------------------------------------------

// Act is one write action on a list of sector roots: "append", "swap" (A,B), "trim" (A).
type Act struct {
	T string `json:"t"`
	A uint64 `json:"a"`
	B uint64 `json:"b"`
}

// refApply applies acts to list (appended roots are taken from appendRoots in order) and
// returns the new list and the sorted set of positions < len(list) that any action
// referred to. ok is false when an action is out of bounds for the list at that moment.
func refApply(list []H, acts []Act, appendRoots []H) (out []H, touched []int, ok bool) {
	n := len(list)
	cur := append([]H(nil), list...)
	set := map[int]bool{}
	for _, a := range acts {
		switch a.T {
		case "append":
			if len(appendRoots) == 0 {
				return nil, nil, false
			}
			set[len(cur)] = true
			cur = append(cur, appendRoots[0])
			appendRoots = appendRoots[1:]
		case "swap":
			if a.A >= uint64(len(cur)) || a.B >= uint64(len(cur)) {
				return nil, nil, false
			}
			set[int(a.A)], set[int(a.B)] = true, true
			cur[a.A], cur[a.B] = cur[a.B], cur[a.A]
		case "trim":
			if a.A > uint64(len(cur)) {
				return nil, nil, false
			}
			for i := 0; i < int(a.A); i++ {
				set[len(cur)-1] = true
				cur = cur[:len(cur)-1]
			}
		default:
			return nil, nil, false
		}
	}
	for i := range set {
		if i < n {
			touched = append(touched, i)
		}
	}
	sort.Ints(touched)
	return cur, touched, true
}

// freeActs is the meaning of "free the sectors at these indices": the i-th freed index is
// swapped with the i-th position from the end, then the tail is cut off.
func freeActs(freed []uint64, n int) []Act {
	acts := []Act{}
	for i, f := range freed {
		acts = append(acts, Act{T: "swap", A: f, B: uint64(n - 1 - i)})
	}
	return append(acts, Act{T: "trim", A: uint64(len(freed))})
}

// ---- deterministic data -------------------------------------------------------------------

type sm64 uint64

func (s *sm64) next() uint64 {
	*s += 0x9E3779B97F4A7C15
	z := uint64(*s)
	z = (z ^ (z >> 30)) * 0xBF58476D1CE4E5B9
	z = (z ^ (z >> 27)) * 0x94D049BB133111EB
	return z ^ (z >> 31)
}

func fillBytes(b []byte, seed uint64) {
	s := sm64(seed)
	i := 0
	for ; i+8 <= len(b); i += 8 {
		binary.LittleEndian.PutUint64(b[i:], s.next())
	}
	if i < len(b) {
		var t [8]byte
		binary.LittleEndian.PutUint64(t[:], s.next())
		copy(b[i:], t[:])
	}
}

// leafOf is the i-th element of the pseudo-random hash list named by seed; elements of
// one list are pairwise distinct (up to hash collisions).
func leafOf(seed, i uint64) H {
	var buf [16]byte
	binary.LittleEndian.PutUint64(buf[:], seed)
	binary.LittleEndian.PutUint64(buf[8:], i)
	return xb.Sum256(buf[:])
}

func leavesOf(seed uint64, n int) []H {
	out := make([]H, n)
	for i := range out {
		out[i] = leafOf(seed, uint64(i))
	}
	return out
}

func flipBit(h H, bit uint64) H {
	h[(bit/8)%32] ^= 1 << (bit % 8)
	return h
}

// ---- readers ------------------------------------------------------------------------------

// Chunk describes how a stream is cut into Read results.
//
//	exact  every Read fills the caller's buffer
//	one    one byte per Read
//	short  1..Max bytes per Read
//	zero   like short, and every few calls a legal (0, nil)
//	eof    like short, and the final bytes are returned together with io.EOF
//
// ErrAt >= 0 makes the reader fail with a non-EOF error once ErrAt bytes were delivered.
type Chunk struct {
	Mode  string `json:"mode"`
	Max   int    `json:"max"`
	Seed  uint64 `json:"seed"`
	ErrAt int    `json:"err_at"`
}

var errInjected = errors.New("c16: injected reader failure")

type chunkReader struct {
	data  []byte
	off   int
	c     Chunk
	rng   sm64
	calls int
}

func newChunkReader(data []byte, c Chunk) *chunkReader {
	if c.Max < 1 {
		c.Max = 1
	}
	return &chunkReader{data: data, c: c, rng: sm64(c.Seed)}
}

func (r *chunkReader) Read(p []byte) (int, error) {
	r.calls++
	if len(p) == 0 {
		return 0, nil
	}
	if r.c.ErrAt >= 0 && r.off >= r.c.ErrAt {
		return 0, errInjected
	}
	rem := len(r.data) - r.off
	if rem == 0 {
		return 0, io.EOF
	}
	k := len(p)
	switch r.c.Mode {
	case "one":
		k = 1
	case "short", "eof":
		k = 1 + int(r.rng.next()%uint64(r.c.Max))
	case "zero":
		if r.calls%3 == 0 {
			return 0, nil
		}
		k = 1 + int(r.rng.next()%uint64(r.c.Max))
	}
	if k > len(p) {
		k = len(p)
	}
	if k > rem {
		k = rem
	}
	if r.c.ErrAt >= 0 && k > r.c.ErrAt-r.off {
		k = r.c.ErrAt - r.off
	}
	copy(p, r.data[r.off:r.off+k])
	r.off += k
	if r.c.Mode == "eof" && r.off == len(r.data) {
		return k, io.EOF
	}
	return k, nil
}
