// C16 — RHP Merkle roots and proofs are complete, sound and implementation-independent.
//
// Oracle: ref.go (RFC 6962 tree over x/crypto BLAKE2b, plain recursion) — roots, range
// proofs, diff proofs, append proofs and paths are all re-derived from the tree
// definition and compared hash-for-hash with what the library builds; every honest
// proof must verify, every single corruption (count held true) must be rejected.
//
// CPU path: the process-wide switch golang.org/x/sys/cpu.X86.HasAVX2 is set once in
// TestMain from C16_PATH (avx2|generic) before any hashing starts, and is never
// flipped while tests run (ReadSectorRoot can leave hashing goroutines behind on its
// error path, so flipping mid-run could race). Every unit in check.json exists twice,
// once per path; both are compared with the same reference. Replays carry the path in
// the case and switch once, before the case runs.
//
// Defect found on the pinned tree (open known finding C16/diff-verify/index-unbound, probe in
// known_test.go): VerifyDiffProof / VerifyFreeSectorsProof accept a proof built for one
// index set under a different index list. While the key is open, an altered index list
// that refers to a different set of old sectors AND is accepted is counted under
// "excluded" instead of failing; every other alteration must still be rejected.
//
// Sensitivity (tools/with_mutant.sh … ./run C16 quick, VERIF_SCALE=0.3, seed 1; wall seconds
// are whole driver runs on a machine shared with other jobs):
//
//	mutant (file:line)                                                        result   s    first key
//	A  v2:48   proofAccumulator.insertNode SumPair operands swapped           killed   93  sector-range/complete
//	C  v2:284  RangeProofSize mask (end-1)^n instead of (end-1)^(n-1)         killed   95  sector-range/size
//	X  v2:293  nextSubtreeSize maxSize one too large                           killed   60  sector-range/complete
//	Z  v2:409  RangeProofVerifier.Verify length check != -> <                  killed  105  sector-range/accepts-proof-long
//	E  v2:446  VerifySectorRangeProof length check != -> <                     SURVIVED (equivalent: the right-hand
//	           insertRange consumes every remaining hash, so a longer proof still changes the root)
//	F  v2:536  verifyMulti no longer requires len(treeHashes)==0               killed   89  diff|free/accepts-proof-long
//	S13 v2:541 leaf-count check != -> >                                        killed   17  diff|free/accepts-leaf-long
//	G  v4:310  VerifyAppendSectorsProof old-root check dropped                 killed   75  append/accepts-old-root
//	S1 v2:478  VerifyAppendProof old-root check dropped                        killed   27  append/accepts-old-root
//	H  v2:262  MetaRoot threshold 2*LeavesPerSector (only n >= 131072 differ)  killed   79  roots/meta (index panic)
//	I  v2:164  sectorAccumulator.root, 3 buffered nodes hashed as a,(b,c)      killed  132  sector/partial, roots/meta
//	J  v4:247  BuildSectorProof cache slice one entry short                    killed  105  sector-range/build
//	K  v2:687  modifyLeaves swap is a no-op                                    killed  200  diff|free/complete
//	M  amd64   lanes 2,3 exchanged after hashBlocksAVX2 (Go wrapper)           killed   86  sector/root, hash/leaves (avx2 units only)
//	N  v2:227  ReadSectorRoot whole-leaf check dropped                         killed   62  sector/partial
//	S7 v2:226  ReadSectorRoot does not tolerate io.EOF between chunks          killed  115  sector/partial-root
//	O  v2:251  ReadSector short stream not detected                            killed  121  sector/partial
//	Y  v2:198  ReaderRoot batch of 15 leaves (breaks 4-leaf grouping)          killed  179  sector/stream, roots/reader
//	Q  v2:706  ConvertProofOrdering takes left hashes from the front           killed   92  sector-range/convert, range/convert
//	R  v2:560  DiffProofSize forgets the leaf hashes                           killed  196  diff/size
//	U  blake2b Accumulator.AddLeaf SumPair operands swapped                    killed  140  append/build, roots/acc
//	V  v2:334  BuildProof treats the leaf after the range as covered           killed  112  sector-range/build
//	W  v4:279  VerifyLeafProof clears bit 0 of the index                       killed   85  sector-range/accepts-index-shift, complete
//	S18 v2:378 BuildSectorRangeProof right side bounded by numLeaves           killed   18  range/build
//	FIX v2:536 "&& acc.numLeaves == numLeaves" (proposed repair)               green; with the key closed the probe is clean and
//	           all 421 912 index alterations of the n <= 8 free enumeration are rejected, every honest proof accepted
package c16

import (
	"bytes"
	"fmt"
	"os"
	"testing"

	"go.sia.tech/core/blake2b"
	rhp2 "go.sia.tech/core/rhp/v2"
	rhp4 "go.sia.tech/core/rhp/v4"
	"golang.org/x/sys/cpu"
	"pgregory.net/rapid"
	"verif/harness/stats"
)

var hwAVX2 bool

func TestMain(m *testing.M) {
	hwAVX2 = cpu.X86.HasAVX2
	if os.Getenv("C16_PATH") == "generic" {
		cpu.X86.HasAVX2 = false // single goroutine, nothing has hashed yet
	}
	stats.Main(m)
}

func curPath() string {
	if cpu.X86.HasAVX2 {
		return "avx2"
	}
	return "generic"
}

// usePath makes the process hash on the path recorded in a case. In driver runs the
// case's path is always the process path (no write happens); only replays switch, and
// they do so before the single replayed case runs.
func usePath(p string) {
	if p == "" {
		return
	}
	want := p == "avx2" && hwAVX2
	if p == "avx2" && !hwAVX2 {
		stats.G().Label("path:avx2-unavailable-on-this-cpu")
	}
	if cpu.X86.HasAVX2 != want {
		cpu.X86.HasAVX2 = want
		stats.G().Label("path-switch")
	}
	stats.G().Label("path:" + curPath())
}

func restorePath(t *testing.T) { t.Cleanup(func() { cpu.X86.HasAVX2 = hwAVX2 }) }

func short(h H) string { return fmt.Sprintf("%x", h[:6]) }

func eqHashes(a, b []H) bool {
	if len(a) != len(b) {
		return false
	}
	for i := range a {
		if a[i] != b[i] {
			return false
		}
	}
	return true
}

func showHashes(hs []H) string {
	var b bytes.Buffer
	b.WriteByte('[')
	for i, h := range hs {
		if i > 0 {
			b.WriteByte(' ')
		}
		if i == 12 {
			fmt.Fprintf(&b, "…(%d)", len(hs))
			break
		}
		b.WriteString(short(h))
	}
	b.WriteByte(']')
	return b.String()
}

// ---- blake2b primitives -------------------------------------------------------------------

// HashCase: one call of a blake2b primitive on 256 deterministic bytes.
type HashCase struct {
	Path  string `json:"path"`
	Fn    string `json:"fn"`   // leaf | pair | leaves | nodes
	Kind  string `json:"kind"` // rand | zero | ff | bit | lanes | neareq
	Seed  uint64 `json:"seed"`
	Pos   int    `json:"pos"`
	Alias bool   `json:"alias"` // nodes: outputs overwrite the first half of the input, as sectorAccumulator does
}

func hashInput(c HashCase) []byte {
	data := make([]byte, 256)
	switch c.Kind {
	case "rand":
		fillBytes(data, c.Seed)
	case "zero":
	case "ff":
		for i := range data {
			data[i] = 0xff
		}
	case "bit":
		data[(c.Pos/8)%256] |= 1 << (c.Pos % 8)
	case "lanes": // every lane constant and different: a lane permutation is visible
		for i := range data {
			data[i] = byte(i/64 + 1)
		}
	case "neareq": // four equal lanes, one bit different in one of them
		fillBytes(data[:64], c.Seed)
		for l := 1; l < 4; l++ {
			copy(data[l*64:], data[:64])
		}
		data[(c.Pos/8)%256] ^= 1 << (c.Pos % 8)
	}
	return data
}

func checkHash(c HashCase) error {
	usePath(c.Path)
	data := hashInput(c)
	fail := func(format string, args ...any) error {
		return stats.Failf("C16/hash/"+c.Fn, "%s %s seed=%d pos=%d path=%s: %s", c.Fn, c.Kind, c.Seed, c.Pos, curPath(), fmt.Sprintf(format, args...))
	}
	switch c.Fn {
	case "leaf":
		var l [64]byte
		copy(l[:], data)
		got, want := H(blake2b.SumLeaf(&l)), refLeaf(data[:64])
		if got != want || want != refLeafFast(data[:64]) {
			return fail("SumLeaf = %s want %s", short(got), short(want))
		}
	case "pair":
		var l, r [32]byte
		copy(l[:], data)
		copy(r[:], data[32:])
		got, want := H(blake2b.SumPair(l, r)), refNode(l, r)
		if got != want || want != refPrefixed(1, data[:64]) {
			return fail("SumPair = %s want %s", short(got), short(want))
		}
	case "leaves":
		var in [4][64]byte
		var out [4][32]byte
		for i := range in {
			copy(in[i][:], data[i*64:])
		}
		blake2b.SumLeaves(&out, &in)
		for i := range out {
			if want := refPrefixed(0, data[i*64:][:64]); H(out[i]) != want {
				return fail("SumLeaves lane %d = %s want %s", i, short(out[i]), short(want))
			}
			if !bytes.Equal(in[i][:], data[i*64:][:64]) {
				return fail("SumLeaves modified its input lane %d", i)
			}
		}
	case "nodes":
		var in [8][32]byte
		for i := range in {
			copy(in[i][:], data[i*32:])
		}
		var out [4][32]byte
		outs := &out
		if c.Alias {
			outs = (*[4][32]byte)(in[:4])
		}
		blake2b.SumNodes(outs, &in)
		for i := range outs {
			if want := refPrefixed(1, data[i*64:][:64]); H(outs[i]) != want {
				return fail("SumNodes(alias=%v) lane %d = %s want %s", c.Alias, i, short(outs[i]), short(want))
			}
		}
	default:
		return stats.Failf("", "harness: unknown fn %q", c.Fn)
	}
	nt := c.Fn == "leaves" || c.Fn == "nodes"
	stats.G().Case(stats.FP("hash", c.Fn, c.Kind, c.Seed, c.Pos, c.Alias), nt, "hash:"+c.Fn, "hashdata:"+c.Kind)
	if stats.G().WantSample() {
		stats.G().Sample(nt, c)
	}
	return nil
}

func drawHash(t *rapid.T) HashCase {
	return HashCase{
		Path:  curPath(),
		Fn:    rapid.SampledFrom([]string{"leaf", "pair", "leaves", "leaves", "nodes", "nodes"}).Draw(t, "fn"),
		Kind:  rapid.SampledFrom([]string{"rand", "rand", "rand", "zero", "ff", "bit", "bit", "lanes", "neareq", "neareq"}).Draw(t, "kind"),
		Seed:  rapid.Uint64().Draw(t, "seed"),
		Pos:   rapid.IntRange(0, 2047).Draw(t, "pos"),
		Alias: rapid.Bool().Draw(t, "alias"),
	}
}

func TestHash(t *testing.T) { stats.Prop(t, drawHash, checkHash) }

// ---- roots of small and medium lists; streaming ReaderRoot ---------------------------------

// RootsCase: a root computed by the library for N elements.
type RootsCase struct {
	Path  string `json:"path"`
	Fn    string `json:"fn"` // meta | acc | reader
	N     int    `json:"n"`
	Seed  uint64 `json:"seed"`
	Extra int    `json:"extra"` // reader: bytes after the last whole leaf (1..63 makes the stream illegal)
	Chunk Chunk  `json:"chunk"`
}

func checkRoots(c RootsCase) error {
	usePath(c.Path)
	rec := stats.G()
	fail := func(format string, args ...any) error {
		return stats.Failf("C16/roots/"+c.Fn, "%s n=%d seed=%d path=%s: %s", c.Fn, c.N, c.Seed, curPath(), fmt.Sprintf(format, args...))
	}
	nt := !isPow2(c.N) || c.N >= 65536
	labels := []string{"roots:" + c.Fn}
	switch c.Fn {
	case "meta":
		leaves := leavesOf(c.Seed, c.N)
		want := newRefTree(leaves).root()
		if got := rhp2.MetaRoot(leaves); got != want {
			return fail("rhp2.MetaRoot = %s want %s", short(got), short(want))
		}
		if got := rhp4.MetaRoot(leaves); got != want {
			return fail("rhp4.MetaRoot = %s want %s", short(got), short(want))
		}
		if c.N > rhp2.LeavesPerSector {
			labels = append(labels, "meta:recursive-split")
		}
	case "acc":
		leaves := leavesOf(c.Seed, c.N)
		t := newRefTree(leaves)
		var acc blake2b.Accumulator
		// Root() is a query: asked in the middle of the stream (a host reporting its contract root after every
		// upload) it reports the root of the leaves so far and changes nothing for the leaves still to come
		mid := -1
		if c.N > 1 && c.Seed&1 == 1 {
			mid = int(c.Seed>>8) % c.N
		}
		for i, l := range leaves {
			if i == mid {
				if got, want := H(acc.Root()), mthOf(leaves[:i]); i > 0 && got != want {
					return fail("Accumulator.Root after %d of %d leaves = %s want %s", i, c.N, short(got), short(want))
				}
				_ = acc.Root()
			}
			acc.AddLeaf(l)
		}
		if mid >= 0 {
			labels = append(labels, "acc:root-queried-mid-stream")
		}
		if got := H(acc.Root()); got != t.root() {
			return fail("Accumulator.Root = %s want %s", short(got), short(t.root()))
		}
		if acc.NumLeaves != uint64(c.N) {
			return fail("Accumulator.NumLeaves = %d", acc.NumLeaves)
		}
		ap := t.appendProof()
		k := 0
		for i := 0; i < 64; i++ {
			if uint64(c.N)&(1<<i) != 0 {
				if k >= len(ap) || H(acc.Trees[i]) != ap[k] {
					return fail("Accumulator.Trees[%d] is not the root of the perfect subtree of height %d", i, i)
				}
				k++
			}
		}
		if k != len(ap) {
			return fail("reference has %d perfect subtrees, accumulator %d", len(ap), k)
		}
	case "reader":
		data := make([]byte, c.N*64+c.Extra)
		fillBytes(data, c.Seed)
		illegal := c.Extra%64 != 0
		failing := c.Chunk.ErrAt >= 0 && c.Chunk.ErrAt < len(data)
		var got H
		var err error
		if c.Seed&1 == 0 {
			got, err = rhp2.ReaderRoot(newChunkReader(data, c.Chunk))
		} else {
			got, err = rhp4.ReaderRoot(newChunkReader(data, c.Chunk))
		}
		switch {
		case illegal || failing:
			if err == nil {
				return fail("ReaderRoot(%d bytes, chunk %+v) returned root %s and no error for a stream that is not a whole number of leaves / fails", len(data), c.Chunk, short(got))
			}
			labels = append(labels, "reader:rejected")
			nt = true
		default:
			if err != nil {
				return fail("ReaderRoot(chunk %+v): %v", c.Chunk, err)
			}
			leaves := make([]H, c.N)
			for i := range leaves {
				leaves[i] = refLeaf(data[i*64:][:64])
			}
			if want := newRefTree(leaves).root(); got != want {
				return fail("ReaderRoot(chunk %+v) = %s want %s", c.Chunk, short(got), short(want))
			}
			if c.Chunk.Mode != "exact" {
				nt = true
			}
		}
		labels = append(labels, "chunk:"+c.Chunk.Mode)
	default:
		return stats.Failf("", "harness: unknown fn %q", c.Fn)
	}
	rec.Case(stats.FP("roots", c.Fn, c.N, c.Seed, c.Extra, c.Chunk.Mode, c.Chunk.Max, c.Chunk.Seed, c.Chunk.ErrAt), nt, labels...)
	if rec.WantSample() {
		rec.Sample(nt, c)
	}
	return nil
}

var chunkMax = []int{1, 2, 7, 63, 64, 65, 1000, 1023, 1024, 1025, 5000, 131072, 200000}

func drawChunk(t *rapid.T, streamLen int, allowErr bool) Chunk {
	c := Chunk{
		Mode:  rapid.SampledFrom([]string{"exact", "one", "short", "short", "short", "zero", "eof"}).Draw(t, "chunkmode"),
		Max:   rapid.SampledFrom(chunkMax).Draw(t, "chunkmax"),
		Seed:  rapid.Uint64().Draw(t, "chunkseed"),
		ErrAt: -1,
	}
	if allowErr && streamLen > 0 && rapid.IntRange(0, 9).Draw(t, "inject") == 0 {
		c.ErrAt = rapid.IntRange(0, streamLen-1).Draw(t, "errat")
	}
	return c
}

func drawRoots(t *rapid.T) RootsCase {
	c := RootsCase{Path: curPath(), Seed: rapid.Uint64().Draw(t, "seed"), Chunk: Chunk{Mode: "exact", ErrAt: -1}}
	c.Fn = rapid.SampledFrom([]string{"meta", "meta", "meta", "acc", "reader", "reader", "reader"}).Draw(t, "fn")
	big := rapid.IntRange(0, 99).Draw(t, "big")
	switch {
	case big < 2 && c.Fn == "meta":
		c.N = rapid.SampledFrom([]int{65535, 65536, 65537, 65540, 98304, 131071, 131072, 131073, 196607, 196608, 196609, 262145, 327681, 331922, 393217, 458753}).Draw(t, "nbig")
		if rapid.IntRange(0, 3).Draw(t, "nbigAny") == 0 {
			// c full 64Ki-root chunks plus a remainder: the recursive split above 65536 roots, for every shape of c
			c.N = rapid.IntRange(1, 9).Draw(t, "chunks")*65536 + rapid.SampledFrom([]int{0, 1, 2, 4097, 32768, 65535}).Draw(t, "rem")
		}
	case big < 2 && c.Fn == "reader":
		c.N = rapid.SampledFrom([]int{4095, 4096, 4097, 65535, 65536}).Draw(t, "nbig")
	case big < 10:
		c.N = rapid.IntRange(301, 5000).Draw(t, "nmid")
	default:
		c.N = rapid.IntRange(0, 300).Draw(t, "n")
	}
	if c.Fn == "reader" {
		if rapid.IntRange(0, 5).Draw(t, "illegal") == 0 {
			c.Extra = rapid.IntRange(1, 63).Draw(t, "extra")
		}
		c.Chunk = drawChunk(t, c.N*64+c.Extra, true)
		if c.N > 5000 && c.Chunk.Mode == "one" {
			c.Chunk.Mode = "short"
		}
	}
	return c
}

func TestRoots(t *testing.T) { stats.Prop(t, drawRoots, checkRoots) }

// TestEnumMeta: MetaRoot against the tree definition for every number c of full 65536-root chunks up to 9 (power
// of two or not) with remainders 0, 1 and 65535 — the sizes at which the recursive split of large root lists
// changes shape (contracts of 256 GiB to 2.25 TiB).
func TestEnumMeta(t *testing.T) {
	shard, ns := stats.Shard()
	i := 0
	for c := 1; c <= 9; c++ {
		for _, r := range []int{0, 1, 65535} {
			if i++; i%ns != shard {
				continue
			}
			stats.Check(t, RootsCase{Path: curPath(), Fn: "meta", N: c*65536 + r, Seed: uint64(c*7 + r), Chunk: Chunk{Mode: "exact", ErrAt: -1}}, checkRoots)
		}
	}
}

// ---- replay entries -----------------------------------------------------------------------

func TestReplayHash(t *testing.T)  { restorePath(t); stats.Replay(t, "TestHash", checkHash) }
func TestReplayRoots(t *testing.T) { restorePath(t); stats.Replay(t, "TestRoots", checkRoots) }
