package c16

import (
	"fmt"
	"sync"
	"testing"

	rhp2 "go.sia.tech/core/rhp/v2"
	rhp4 "go.sia.tech/core/rhp/v4"
	"pgregory.net/rapid"

	"verif/harness/stats"
)

// Concurrent callers. The roots and proofs are functions of their inputs; a host serves many streams at once, so the
// same functions run on different data in several goroutines at the same time. Each worker owns its data (a stream of
// leaves, a list of sector roots), computes ReaderRoot, MetaRoot (rhp2 and rhp4), a sector range proof and its
// verification over and over while the others do the same on theirs, and every result must equal the one the
// reference tree gives for that worker's data. Workers are released by a barrier; readers hand out small chunks so that
// every call passes through the library's buffering many times. (The race-detector build of this unit runs in the
// thorough tier; the plain build already fails when results get mixed up.)

// ConcCase is one concurrent session.
type ConcCase struct {
	Workers int    `json:"workers"`
	Seed    uint64 `json:"seed"`
	Rounds  int    `json:"rounds"`
	Leaves  []int  `json:"leaves"` // per worker: number of 64-byte leaves of its stream
	Roots   []int  `json:"roots"`  // per worker: number of sector roots of its list
	ChunkBy []int  `json:"chunkBy"`
}

func drawConc(t *rapid.T) ConcCase {
	c := ConcCase{Workers: rapid.IntRange(2, 8).Draw(t, "workers"), Seed: rapid.Uint64().Draw(t, "seed"), Rounds: rapid.IntRange(4, 24).Draw(t, "rounds")}
	for i := 0; i < c.Workers; i++ {
		c.Leaves = append(c.Leaves, rapid.IntRange(1, 700).Draw(t, "leaves"))
		c.Roots = append(c.Roots, rapid.IntRange(1, 300).Draw(t, "roots"))
		c.ChunkBy = append(c.ChunkBy, rapid.SampledFrom([]int{1, 7, 64, 100, 1000, 4096}).Draw(t, "chunk"))
	}
	return c
}

func checkConc(c ConcCase) error {
	rec := stats.G()
	type job struct {
		data     []byte
		wantRoot H
		roots    []H
		wantMeta H
		start    int
		end      int
		wantPf   []H
	}
	jobs := make([]job, c.Workers)
	for i := range jobs {
		j := &jobs[i]
		j.data = make([]byte, c.Leaves[i]*64)
		fillBytes(j.data, c.Seed+uint64(i)*7919)
		lh := make([]H, c.Leaves[i])
		for k := range lh {
			lh[k] = refLeafFast(j.data[k*64 : k*64+64])
		}
		j.wantRoot = mthOf(lh)
		j.roots = leavesOf(c.Seed^uint64(i+1)*104729, c.Roots[i])
		rt := newRefTree(j.roots)
		j.wantMeta = rt.root()
		j.start = int((c.Seed >> uint(i)) % uint64(c.Roots[i]))
		j.end = j.start + 1 + int((c.Seed>>uint(i+8))%uint64(c.Roots[i]-j.start))
		j.wantPf = rt.rangeProof(j.start, j.end)
	}
	var mu sync.Mutex
	var firstErr error
	fail := func(w int, format string, args ...any) {
		mu.Lock()
		if firstErr == nil {
			firstErr = stats.Failf("C16/concurrent", "worker %d of %d (path %s): %s", w, c.Workers, curPath(), fmt.Sprintf(format, args...))
		}
		mu.Unlock()
	}
	start := make(chan struct{})
	var wg sync.WaitGroup
	for w := range jobs {
		wg.Add(1)
		go func(w int) {
			defer wg.Done()
			defer func() {
				if r := recover(); r != nil {
					fail(w, "panic: %v", r)
				}
			}()
			j := jobs[w]
			<-start
			for r := 0; r < c.Rounds; r++ {
				got, err := rhp2.ReaderRoot(newChunkReader(j.data, Chunk{Mode: "short", Max: c.ChunkBy[w], Seed: c.Seed + uint64(r), ErrAt: -1}))
				if err != nil || got != j.wantRoot {
					fail(w, "round %d: ReaderRoot over %d leaves = %s, %v; the tree definition gives %s", r, c.Leaves[w], short(got), err, short(j.wantRoot))
					return
				}
				if got := rhp2.MetaRoot(j.roots); got != j.wantMeta {
					fail(w, "round %d: MetaRoot over %d roots = %s, want %s", r, len(j.roots), short(got), short(j.wantMeta))
					return
				}
				if got := rhp4.MetaRoot(j.roots); got != j.wantMeta {
					fail(w, "round %d: rhp4.MetaRoot over %d roots = %s, want %s", r, len(j.roots), short(got), short(j.wantMeta))
					return
				}
				pf := rhp2.BuildSectorRangeProof(j.roots, uint64(j.start), uint64(j.end))
				if !eqHashes(pf, j.wantPf) {
					fail(w, "round %d: BuildSectorRangeProof(%d roots, [%d,%d)) differs from the tree definition", r, len(j.roots), j.start, j.end)
					return
				}
				if !rhp2.VerifySectorRangeProof(pf, j.roots[j.start:j.end], uint64(j.start), uint64(j.end), uint64(len(j.roots)), j.wantMeta) {
					fail(w, "round %d: honest sector range proof rejected", r)
					return
				}
			}
		}(w)
	}
	close(start)
	wg.Wait()
	if firstErr != nil {
		return firstErr
	}
	rec.Case(stats.FP("conc", c.Workers, c.Seed, c.Rounds, fmt.Sprint(c.Leaves), fmt.Sprint(c.Roots)), c.Workers >= 3, fmt.Sprintf("concurrent-workers:%d", c.Workers))
	return nil
}

func TestConcurrent(t *testing.T)       { stats.Prop(t, drawConc, checkConc) }
func TestReplayConcurrent(t *testing.T) { restorePath(t); stats.Replay(t, "TestConcurrent", checkConc) }
