package c16

import (
	"testing"

	rhp2 "go.sia.tech/core/rhp/v2"
	rhp4 "go.sia.tech/core/rhp/v4"
	"verif/harness/stats"
)

// TestKnown: minimal reproduction of keyIndexUnbound.
//
// Six distinct sector roots r0..r5. The host builds the (honest) proof for freeing sector
// 4: swap(4,5), trim 1 -> new list [r0 r1 r2 r3 r5], tree hashes [MTH(r0..r3)], leaf hashes
// [r4 r5]. The same proof, the same old root and the same new root are then presented for
// the request "free sector 2" (swap(2,5), trim 1 -> the true result would be
// [r0 r1 r5 r3 r4], a different root). The element count 6 is the true one.
//
// verifyMulti walks insertRange(0,2), which inserts MTH(r0..r3) — a height-2 node — at
// height 1 and thereby uses up the tree hashes; insertRange(3,5) then silently inserts
// nothing ("len(treeHashes) > 0" guard), r4 and r5 pair up, and the accumulator ends with 4
// leaves instead of 6 but with exactly the old root H(MTH(r0..r3), H(r4,r5)). The new-root
// pass works the same way. Nothing checks that the ranges were covered completely.
func TestKnown(t *testing.T) {
	stats.ProbeKnown(t, keyIndexUnbound,
		"VerifyFreeSectorsProof / VerifyDiffProof accept a proof built for freeing sector 4 of 6 as a proof for freeing sector 2 (same old root, same new root, true count): the verifier never checks that the tree hashes cover every gap, so the index list is not bound to the proof",
		func() error {
			const n = 6
			leaves := leavesOf(enumSeed, n)
			oldRoot := newRefTree(leaves).root()
			after := func(freed uint64) H {
				nl, _, ok := refApply(leaves, freeActs([]uint64{freed}, n), nil)
				if !ok {
					panic("harness")
				}
				return mthOf(nl)
			}
			newRoot4, newRoot2 := after(4), after(2)
			if newRoot4 == newRoot2 {
				return stats.Failf("", "harness: the two operations must have different results")
			}
			tree, leaf := rhp4.BuildFreeSectorsProof(cloneH(leaves), []uint64{4})
			if !rhp4.VerifyFreeSectorsProof(cloneH(tree), cloneH(leaf), []uint64{4}, n, oldRoot, newRoot4) {
				return nil // the honest proof is not even accepted: a different problem, reported by the main check
			}
			if rhp4.VerifyFreeSectorsProof(cloneH(tree), cloneH(leaf), []uint64{2}, n, oldRoot, newRoot4) {
				return stats.Failf(keyIndexUnbound, "rhp4.VerifyFreeSectorsProof(proof for freed=[4], freed=[2], numSectors=6, oldRoot, root-after-freeing-4) = true; the true root after freeing 2 is %s, not %s", short(newRoot2), short(newRoot4))
			}
			acts := []rhp2.RPCWriteAction{{Type: rhp2.RPCWriteActionSwap, A: 2, B: 5}, {Type: rhp2.RPCWriteActionTrim, A: 1}}
			if rhp2.VerifyDiffProof(acts, n, cloneH(tree), cloneH(leaf), oldRoot, newRoot4, nil) {
				return stats.Failf(keyIndexUnbound, "rhp2.VerifyDiffProof accepts the proof for swap(4,5),trim(1) under the actions swap(2,5),trim(1)")
			}
			return nil
		})
}
