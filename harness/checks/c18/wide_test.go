package c18

import (
	"bytes"
	"encoding/binary"
	"fmt"
	"testing"
	"time"

	"go.sia.tech/core/consensus"
	"go.sia.tech/core/gateway"
	"go.sia.tech/core/types"
	"pgregory.net/rapid"
	"verif/harness/stats"
)

// Busy blocks. The simulated chains carry a handful of transactions per block; a fresh node with an empty pool that
// receives the outline of a busy block has hundreds of empty slots. "With some still missing it reports exactly the missing
// hashes" for outlines of 60..1100 transactions with any subset omitted (all, all but a few, every other one, a random
// half), completed in two steps: a pool holding some of the omitted transactions, then the rest.

type WideCase struct {
	Seed uint64 `json:"seed"`
	V1   int    `json:"v1"`
	V2   int    `json:"v2"`
	Omit string `json:"omit"` // all | but-few | alternate | half
	Have int    `json:"have"` // per mille of the omitted transactions the first pool holds
}

func drawWide(t *rapid.T) WideCase {
	n := rapid.SampledFrom([]int{60, 99, 100, 101, 102, 150, 199, 201, 256, 257, 400, 1100}).Draw(t, "n")
	v1 := rapid.SampledFrom([]int{0, 0, 1, n / 3, n}).Draw(t, "v1")
	return WideCase{Seed: rapid.Uint64().Draw(t, "seed"), V1: v1, V2: n - v1,
		Omit: rapid.SampledFrom([]string{"all", "all", "but-few", "alternate", "half"}).Draw(t, "omit"),
		Have: rapid.SampledFrom([]int{0, 0, 50, 500, 950}).Draw(t, "have")}
}

func checkWide(c WideCase) error {
	rec := stats.G()
	n := c.V1 + c.V2
	if c.V1 < 0 || c.V2 < 0 || n == 0 || n > 3000 {
		return stats.Failf("", "harness: case out of range")
	}
	seed := c.Seed
	next := func() uint64 {
		seed += 0x9E3779B97F4A7C15
		z := seed
		z = (z ^ (z >> 30)) * 0xBF58476D1CE4E5B9
		z = (z ^ (z >> 27)) * 0x94D049BB133111EB
		return z ^ (z >> 31)
	}
	parent := consensus.State{Network: &consensus.Network{}, Index: types.ChainIndex{Height: 10 + c.Seed%50}}
	// (Complete recomputes the miner payout: block reward plus fees, and these transactions pay none)
	b := types.Block{ParentID: parent.Index.ID, Nonce: c.Seed, Timestamp: time.Unix(1_700_000_000+int64(c.Seed%1000), 0), MinerPayouts: []types.SiacoinOutput{{Value: parent.BlockReward(), Address: types.Address{5}}}}
	for i := 0; i < c.V1; i++ {
		d := make([]byte, 16)
		binary.LittleEndian.PutUint64(d, c.Seed)
		binary.LittleEndian.PutUint64(d[8:], uint64(i))
		b.Transactions = append(b.Transactions, types.Transaction{ArbitraryData: [][]byte{d}})
	}
	b.V2 = &types.V2BlockData{Height: parent.Index.Height + 1}
	for i := 0; i < c.V2; i++ {
		d := make([]byte, 16)
		binary.LittleEndian.PutUint64(d, ^c.Seed)
		binary.LittleEndian.PutUint64(d[8:], uint64(i))
		b.V2.Transactions = append(b.V2.Transactions, types.V2Transaction{ArbitraryData: d})
	}
	b.V2.Commitment = parent.Commitment(b.MinerPayouts[0].Address, b.Transactions, b.V2.Transactions)
	hashOf := func(i int) types.Hash256 {
		if i < c.V1 {
			return b.Transactions[i].MerkleLeafHash()
		}
		return b.V2.Transactions[i-c.V1].MerkleLeafHash()
	}
	omit := make([]bool, n)
	for i := range omit {
		switch c.Omit {
		case "all":
			omit[i] = true
		case "but-few":
			omit[i] = next()%40 != 0
		case "alternate":
			omit[i] = i%2 == 0
		default:
			omit[i] = next()%2 == 0
		}
	}
	var omitV1 []types.Transaction
	var omitV2 []types.V2Transaction
	var wantMissing []types.Hash256
	for i, o := range omit {
		if !o {
			continue
		}
		wantMissing = append(wantMissing, hashOf(i))
		if i < c.V1 {
			omitV1 = append(omitV1, b.Transactions[i])
		} else {
			omitV2 = append(omitV2, b.V2.Transactions[i-c.V1])
		}
	}
	what := fmt.Sprintf("outline of %d v1 + %d v2 transactions with %d omitted (%s)", c.V1, c.V2, len(wantMissing), c.Omit)
	bo := gateway.OutlineBlock(b, omitV1, omitV2)
	if bo.ID(parent) != b.ID() {
		return stats.Failf("C18/outline-id", "%s has a different ID than the block", what)
	}
	if got := bo.Missing(); !sameHashes(got, wantMissing) {
		return stats.Failf("C18/outline-missing", "%s reports %d missing hashes, %d slots are empty (or other hashes / another order)", what, len(got), len(wantMissing))
	}
	// first pool: some of the omitted transactions
	var p1 []types.Transaction
	var p2 []types.V2Transaction
	var still []types.Hash256
	var r1 []types.Transaction
	var r2 []types.V2Transaction
	for i, o := range omit {
		if !o {
			continue
		}
		have := int(next()%1000) < c.Have
		switch {
		case have && i < c.V1:
			p1 = append(p1, b.Transactions[i])
		case have:
			p2 = append(p2, b.V2.Transactions[i-c.V1])
		case i < c.V1:
			still = append(still, hashOf(i))
			r1 = append(r1, b.Transactions[i])
		default:
			still = append(still, hashOf(i))
			r2 = append(r2, b.V2.Transactions[i-c.V1])
		}
	}
	_, missing := bo.Complete(parent, p1, p2)
	if !sameHashes(missing, still) {
		return stats.Failf("C18/outline-missing", "%s completed from a pool holding %d of them: Complete reports %d missing hashes, %d were not supplied (or other hashes / another order)", what, len(p1)+len(p2), len(missing), len(still))
	}
	if got := bo.Missing(); !sameHashes(got, still) {
		return stats.Failf("C18/outline-incremental", "%s: after a partial Complete, Missing() reports %d hashes, Complete returned %d", what, len(got), len(still))
	}
	full, missing := bo.Complete(parent, r1, r2)
	if len(missing) != 0 {
		return stats.Failf("C18/outline-complete", "%s: given every hash reported missing, Complete still misses %d", what, len(missing))
	}
	if full.ID() != b.ID() || !bytes.Equal(enc(types.V2Block(full)), enc(types.V2Block(b))) {
		return stats.Failf("C18/outline-complete", "%s: the completed block is not the original block", what)
	}
	rec.Case(stats.FP("wide", c.Seed, c.V1, c.V2, c.Omit, c.Have), len(wantMissing) > 100, "outline-wide", "outline-wide-omit:"+c.Omit, map[bool]string{true: "outline-wide:>100-empty-slots", false: "outline-wide:<=100-empty-slots"}[len(wantMissing) > 100])
	return nil
}

func TestOutlineWide(t *testing.T)       { stats.Prop(t, drawWide, checkWide) }
func TestReplayOutlineWide(t *testing.T) { stats.Replay(t, "TestOutlineWide", checkWide) }
