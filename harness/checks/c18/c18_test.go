// C18 — Multiproof block compression and compact block relay are lossless.
//
// Domain: valid v2 blocks / transaction sets from the simulator over many accumulator
// shapes (several inputs under one subtree, leaves in different trees, storage proofs with
// chain-index elements, ephemeral parents, revisions + resolutions, empty sets); outlines with
// every subset of transactions omitted for small blocks and drawn subsets otherwise;
// candidate pools = exact, superset with decoys, permuted, partial.
// Oracle: round trip / differential: decode(encode(V2TransactionsMultiproof(txns))) restores
// every Merkle proof bit-for-bit and every other field (compared through the plain,
// proof-carrying encoding); same through V2BlockData and V2Block; the decoded block has the
// same ID, commitment and ValidateBlock verdict; the encoding is deterministic, not longer than
// the plain encoding, and leaves the original transactions untouched. Outline: same ID as the
// block; Complete(pool containing the omitted transactions) returns a block whose encoding
// equals the original and nothing missing; with a partial pool exactly the hashes of the
// still-missing transactions are reported, in block order; the outline survives the gateway
// codec (RPCRelayV2BlockOutline over a Stream).
package c18

import (
	"bytes"
	"fmt"
	"reflect"
	"testing"

	"go.sia.tech/core/consensus"
	"go.sia.tech/core/gateway"
	"go.sia.tech/core/types"
	"pgregory.net/rapid"
	"verif/harness/gen"
	"verif/harness/sim"
	"verif/harness/stats"
)

func TestMain(m *testing.M) { stats.Main(m) }

func draw(t *rapid.T) sim.ChainCase {
	g := sim.GenChain(t, sim.GenOpts{
		Net:       sim.NetOpts{MaxForkHeight: rapid.SampledFrom([]int{3, 8, 16}).Draw(t, "forkSpan"), V2Only: rapid.IntRange(0, 2).Draw(t, "v2only") != 0},
		MinBlocks: 10, MaxBlocks: 45, Reorgs: false, StrayProofs: true, Profile: sim.Profile{Contracts: 1, MaxTxns: 8},
		OnBlock: func(g *sim.Gen, b *sim.Builder) {
			// many small payments early on grow the accumulator and spread later inputs over several trees
			if rapid.IntRange(0, 2).Draw(g.T, "burst") == 0 {
				for i := 0; i < 4; i++ {
					b.V2Pay()
				}
			} else {
				sim.SameBlockScenarios(g, b)
			}
			if rapid.IntRange(0, 3).Draw(g.T, "dataOnly") == 0 {
				b.DataOnly() // repeated byte-identical transactions: duplicate hashes in the outline and in the candidate pool
			}
		},
	})
	c, err := g.Case.Normalize()
	if err != nil {
		panic(err)
	}
	return c
}

func enc(e types.EncoderTo) []byte {
	var buf bytes.Buffer
	en := types.NewEncoder(&buf)
	e.EncodeTo(en)
	en.Flush()
	return buf.Bytes()
}

// observingWriter looks at the caller's data each time the encoder writes (up to budget times).
type observingWriter struct {
	look    func() bool
	budget  int
	writes  int
	changed int // first write at which the data looked different
}

func (w *observingWriter) Write(p []byte) (int, error) {
	w.writes++
	if w.writes <= w.budget && w.changed == 0 && !w.look() {
		w.changed = w.writes
	}
	return len(p), nil
}

func plain(txns []types.V2Transaction) []byte {
	var buf bytes.Buffer
	en := types.NewEncoder(&buf)
	types.EncodeSlice(en, txns)
	en.Flush()
	return buf.Bytes()
}

type leafInfo struct {
	idx  uint64
	tree int
}

func leavesOf(txns []types.V2Transaction) (ls []leafInfo) {
	add := func(se types.StateElement) {
		if se.LeafIndex != types.UnassignedLeafIndex {
			ls = append(ls, leafInfo{se.LeafIndex, len(se.MerkleProof)})
		}
	}
	for _, t := range txns {
		for _, in := range t.SiacoinInputs {
			add(in.Parent.StateElement)
		}
		for _, in := range t.SiafundInputs {
			add(in.Parent.StateElement)
		}
		for _, r := range t.FileContractRevisions {
			add(r.Parent.StateElement)
		}
		for _, r := range t.FileContractResolutions {
			add(r.Parent.StateElement)
			if sp, ok := r.Resolution.(*types.V2StorageProof); ok {
				add(sp.ProofIndex.StateElement)
			}
		}
	}
	return
}

// prevOutlineRaw is the wire form of the outline encoded last (any block, any subset).
var prevOutlineRaw []byte

var outlineEntry = func() *gen.Entry {
	for _, e := range gen.Registry() {
		if e.Type == reflect.TypeOf(gateway.RPCRelayV2BlockOutline{}) {
			return e
		}
	}
	return nil
}()

func checkBlock(ch *sim.Chain, parent consensus.State, b types.Block, bs consensus.V1BlockSupplement, decoys []types.V2Transaction, decoysV1 []types.Transaction) error {
	rec := stats.G()
	if b.V2 == nil {
		return nil
	}
	txns := b.V2.Transactions
	before := plain(txns)
	// (1) transaction set
	mp := enc(types.V2TransactionsMultiproof(txns))
	if !bytes.Equal(mp, enc(types.V2TransactionsMultiproof(txns))) {
		return stats.Failf("C18/determinism", "two multiproof encodings of the same set differ")
	}
	if !bytes.Equal(before, plain(txns)) {
		return stats.Failf("C18/purity", "multiproof encoding modified the transactions")
	}
	// ... nor while it is going on: an encoder hands its bytes to a connection piece by piece, and whenever it does, the
	// block another peer's goroutine (or a validator) reads at that moment is the block as it was
	for _, form := range []struct {
		name string
		v    types.EncoderTo
	}{{"V2TransactionsMultiproof", types.V2TransactionsMultiproof(txns)}, {"V2Block", types.V2Block(b)}} {
		w := &observingWriter{look: func() bool { return bytes.Equal(plain(txns), before) }, budget: 12}
		en := types.NewEncoder(w)
		form.v.EncodeTo(en)
		en.Flush()
		if w.changed > 0 {
			return stats.Failf("C18/purity/during-encoding", "while %s.EncodeTo was writing (write #%d of %d), the caller's transactions were not the ones it had passed in", form.name, w.changed, w.writes)
		}
		if w.writes > 1 {
			rec.Label("observed-during-encoding:" + form.name)
		}
	}
	var dec types.V2TransactionsMultiproof
	d := types.NewBufDecoder(mp)
	dec.DecodeFrom(d)
	if d.Err() != nil {
		return stats.Failf("C18/decode", "multiproof decoding failed: %v", d.Err())
	}
	if !bytes.Equal(plain(dec), before) {
		for i := range txns {
			if i < len(dec) && !bytes.Equal(enc(dec[i]), enc(txns[i])) {
				return stats.Failf("C18/roundtrip", "transaction %d differs after the multiproof round trip (proofs or fields not restored)", i)
			}
		}
		return stats.Failf("C18/roundtrip", "transaction set differs after the multiproof round trip (%d -> %d transactions)", len(txns), len(dec))
	}
	if len(mp) > len(before)+8 {
		return stats.Failf("C18/size", "multiproof encoding (%d bytes) is longer than the plain encoding (%d bytes + 8)", len(mp), len(before))
	}
	// (2) block forms
	blkBytes := enc(types.V2Block(b))
	var db types.V2Block
	d = types.NewBufDecoder(blkBytes)
	db.DecodeFrom(d)
	if d.Err() != nil {
		return stats.Failf("C18/decode", "V2Block decoding failed: %v", d.Err())
	}
	dblock := types.Block(db)
	if dblock.ID() != b.ID() {
		return stats.Failf("C18/block-id", "decoded block has a different ID")
	}
	if dblock.V2.Commitment != b.V2.Commitment || parent.Commitment(dblock.MinerPayouts[0].Address, dblock.Transactions, dblock.V2Transactions()) != b.V2.Commitment {
		return stats.Failf("C18/commitment", "decoded block has a different commitment")
	}
	if !bytes.Equal(plain(dblock.V2.Transactions), before) || !bytes.Equal(enc(types.V1Block(dblock)), enc(types.V1Block(b))) {
		return stats.Failf("C18/roundtrip", "decoded block differs from the original")
	}
	if err := consensus.ValidateBlock(parent, dblock, bs); err != nil {
		return stats.Failf("C18/validity", "decoded copy of a valid block is rejected: %v", err)
	}
	if !bytes.Equal(enc(types.V2Block(dblock)), blkBytes) {
		return stats.Failf("C18/canonical", "re-encoding the decoded block gives different bytes")
	}
	var bd types.V2BlockData
	d = types.NewBufDecoder(enc(*b.V2))
	bd.DecodeFrom(d)
	if d.Err() != nil || bd.Height != b.V2.Height || bd.Commitment != b.V2.Commitment || !bytes.Equal(plain(bd.Transactions), before) {
		return stats.Failf("C18/roundtrip", "V2BlockData round trip differs (%v)", d.Err())
	}

	// (2b) the decoded elements are independent values: no proof whose spare capacity covers another proof, and
	// after a competing (empty) block is applied, refreshing the proofs of the original set and of the decoded set
	// with that block's update leaves them bit-for-bit equal and valid for the new state (a transaction that
	// arrived in multiproof form and waits in a pool while another block is mined)
	if herr := gen.AppendHazard(reflect.ValueOf(&dec).Elem()); herr != nil {
		return stats.Failf("C18/decoded-aliasing", "multiproof-decoded transactions alias each other: %v", herr)
	}
	if herr := gen.AppendHazard(reflect.ValueOf(&dblock).Elem()); herr != nil {
		return stats.Failf("C18/decoded-aliasing", "decoded block aliases itself: %v", herr)
	}
	{
		empty := sim.CloneBlock(b)
		empty.Transactions = nil
		empty.V2 = &types.V2BlockData{Height: b.V2.Height}
		ebs := consensus.V1BlockSupplement{Transactions: nil, ExpiringFileContracts: bs.ExpiringFileContracts}
		if sim.Reseal(parent, &empty) == nil && consensus.ValidateBlock(parent, empty, ebs) == nil {
			next, au := consensus.ApplyBlock(parent, empty, ebs, ch.TargetTimestamp(parent.Index.Height+1))
			orig := make([]types.V2Transaction, len(txns))
			for i := range txns {
				orig[i] = sim.CloneV2(txns[i])
			}
			refresh := func(set []types.V2Transaction) {
				for i := range set {
					t := &set[i]
					for j := range t.SiacoinInputs {
						if t.SiacoinInputs[j].Parent.StateElement.LeafIndex != types.UnassignedLeafIndex {
							au.UpdateElementProof(&t.SiacoinInputs[j].Parent.StateElement)
						}
					}
					for j := range t.SiafundInputs {
						if t.SiafundInputs[j].Parent.StateElement.LeafIndex != types.UnassignedLeafIndex {
							au.UpdateElementProof(&t.SiafundInputs[j].Parent.StateElement)
						}
					}
					for j := range t.FileContractRevisions {
						if t.FileContractRevisions[j].Parent.StateElement.LeafIndex != types.UnassignedLeafIndex {
							au.UpdateElementProof(&t.FileContractRevisions[j].Parent.StateElement)
						}
					}
					for j := range t.FileContractResolutions {
						if t.FileContractResolutions[j].Parent.StateElement.LeafIndex != types.UnassignedLeafIndex {
							au.UpdateElementProof(&t.FileContractResolutions[j].Parent.StateElement)
						}
						if sp, ok := t.FileContractResolutions[j].Resolution.(*types.V2StorageProof); ok {
							au.UpdateElementProof(&sp.ProofIndex.StateElement)
						}
					}
				}
			}
			refresh(orig)
			refresh(dec)
			if !bytes.Equal(plain(orig), plain(dec)) {
				return stats.Failf("C18/decoded-then-updated", "after refreshing the proofs with a later block's update, the multiproof-decoded set differs from the original set")
			}
			for i := range dec {
				if err := next.Elements.ValidateTransactionElements(dec[i]); err != nil {
					if oerr := next.Elements.ValidateTransactionElements(orig[i]); oerr == nil {
						return stats.Failf("C18/decoded-then-updated", "transaction %d of the decoded set no longer verifies after a proof refresh (the original does): %v", i, err)
					}
				}
			}
			rec.Label("decoded-then-updated")
		}
	}

	// (3) outlines
	nT := len(b.Transactions) + len(txns)
	subsets := []uint64{0}
	if nT > 0 {
		if nT <= 4 {
			subsets = subsets[:0]
			for m := uint64(0); m < 1<<uint(nT); m++ {
				subsets = append(subsets, m)
			}
		} else {
			id := b.ID()
			seed := uint64(id[0]) | uint64(id[1])<<8 | uint64(id[2])<<16 | uint64(id[3])<<24
			all := uint64(1)<<uint(nT) - 1
			subsets = []uint64{0, all, 1, all >> 1, seed & all, (seed >> 7) & all, (seed * 2654435761) & all}
		}
	}
	hashOfIdx := func(i int) types.Hash256 {
		if i < len(b.Transactions) {
			return b.Transactions[i].MerkleLeafHash()
		}
		return txns[i-len(b.Transactions)].MerkleLeafHash()
	}
	for _, mask := range subsets {
		var omitV1 []types.Transaction
		var omitV2 []types.V2Transaction
		var wantMissing []types.Hash256
		omitted := map[types.Hash256]bool{}
		for i := 0; i < nT; i++ {
			if mask&(1<<uint(i)) != 0 {
				if i < len(b.Transactions) {
					omitV1 = append(omitV1, sim.CloneV1(b.Transactions[i]))
				} else {
					omitV2 = append(omitV2, sim.CloneV2(txns[i-len(b.Transactions)]))
				}
				omitted[hashOfIdx(i)] = true
			}
		}
		// OutlineBlock omits by hash: a byte-identical transaction that occurs again in the block (data-only
		// transactions may) is omitted at every position, and every empty slot is reported
		for i := 0; i < nT; i++ {
			if omitted[hashOfIdx(i)] {
				wantMissing = append(wantMissing, hashOfIdx(i))
			}
		}
		bo := gateway.OutlineBlock(sim.CloneBlock(b), omitV1, omitV2)
		if bo.ID(parent) != b.ID() {
			return stats.Failf("C18/outline-id", "outline with subset %b omitted has a different ID", mask)
		}
		if got := bo.Missing(); !sameHashes(got, wantMissing) {
			return stats.Failf("C18/outline-missing", "outline with subset %b omitted reports missing %v, want %v", mask, got, wantMissing)
		}
		// through the gateway codec
		if outlineEntry != nil {
			raw, err := outlineEntry.Encode(reflect.ValueOf(gateway.RPCRelayV2BlockOutline{Block: bo}))
			if err != nil {
				return stats.Failf("C18/outline-codec", "encoding the outline RPC failed: %v", err)
			}
			dv := outlineEntry.Decode(raw, reflect.Value{})
			if dv.Err != nil {
				return stats.Failf("C18/outline-codec", "decoding the outline RPC failed: %v", dv.Err)
			}
			// a relay loop reads every outline into one request object: the outline of the previous subset (other slots
			// inline, other slots omitted) is decoded into the variable first, then this one; what the variable then holds
			// must be this outline and nothing of the previous one
			if prevOutlineRaw != nil && outlineEntry.DecodeInto != nil {
				reused := reflect.New(outlineEntry.Type)
				if err := outlineEntry.DecodeInto(prevOutlineRaw, reused); err == nil {
					if err := outlineEntry.DecodeInto(raw, reused); err != nil {
						return stats.Failf("C18/outline-reused-receiver", "decoding the outline into a request object that held the previous outline failed: %v", err)
					}
					rb := reused.Elem().Interface().(gateway.RPCRelayV2BlockOutline).Block
					if rb.ID(parent) != b.ID() || !sameHashes(rb.Missing(), wantMissing) {
						return stats.Failf("C18/outline-reused-receiver", "an outline decoded into the request object that held the previous outline reports missing %v, want %v (same ID: %v)", rb.Missing(), wantMissing, rb.ID(parent) == b.ID())
					}
					rec.Label("outline:decoded-into-reused-request")
				}
			}
			prevOutlineRaw = raw
			got := dv.V.Interface().(gateway.RPCRelayV2BlockOutline).Block
			if got.ID(parent) != b.ID() || !sameHashes(got.Missing(), wantMissing) {
				return stats.Failf("C18/outline-codec", "outline differs after the gateway codec round trip")
			}
			bo = got
		}
		// partial pool: only the first half of the omitted transactions (plus decoys)
		if len(wantMissing) >= 2 {
			half := sim.CloneBlock(types.Block{Transactions: omitV1, V2: &types.V2BlockData{Transactions: omitV2}})
			pv1, pv2 := half.Transactions, half.V2.Transactions
			var still []types.Hash256
			keep := map[types.Hash256]bool{}
			for k, h := range wantMissing {
				if k%2 == 0 {
					keep[h] = true
				}
			}
			var p1 []types.Transaction
			var p2 []types.V2Transaction
			for i := range pv1 {
				if keep[pv1[i].MerkleLeafHash()] {
					p1 = append(p1, pv1[i])
				}
			}
			for i := range pv2 {
				if keep[pv2[i].MerkleLeafHash()] {
					p2 = append(p2, pv2[i])
				}
			}
			// whatever the pool offers fills every slot with that hash (decoys from earlier blocks may be
			// byte-identical to a data-only transaction of this block)
			offered := map[types.Hash256]bool{}
			for _, t := range append(append([]types.Transaction(nil), p1...), decoysV1...) {
				offered[t.MerkleLeafHash()] = true
			}
			for _, t := range append(append([]types.V2Transaction(nil), p2...), decoys...) {
				offered[t.MerkleLeafHash()] = true
			}
			for _, h := range wantMissing {
				if !offered[h] {
					still = append(still, h)
				}
			}
			cp := bo
			cp.Transactions = append([]gateway.OutlineTransaction(nil), bo.Transactions...)
			_, missing := cp.Complete(parent, append(p1, decoysV1...), append(p2, decoys...))
			if !sameHashes(missing, still) {
				return stats.Failf("C18/outline-partial", "partial pool: reported missing %v, want %v", missing, still)
			}
			// completion in two steps, as a node does it (complete from the pool, fetch what is reported missing,
			// complete again with the reply): the outline keeps what the first call matched, Missing() agrees with
			// what Complete returned, and the second call, given exactly the transactions still missing, yields the block
			if got := cp.Missing(); !sameHashes(got, still) {
				return stats.Failf("C18/outline-incremental", "after a partial Complete, Missing() reports %v but Complete returned %v", got, still)
			}
			var r1 []types.Transaction
			var r2 []types.V2Transaction
			stillSet := map[types.Hash256]bool{}
			for _, h := range still {
				stillSet[h] = true
			}
			for i := range omitV1 {
				if stillSet[omitV1[i].MerkleLeafHash()] {
					r1 = append(r1, sim.CloneV1(omitV1[i]))
				}
			}
			for i := range omitV2 {
				if stillSet[omitV2[i].MerkleLeafHash()] {
					r2 = append(r2, sim.CloneV2(omitV2[i]))
				}
			}
			full2, missing2 := cp.Complete(parent, r1, r2)
			if len(missing2) != 0 {
				return stats.Failf("C18/outline-incremental", "second Complete was given exactly the %d transactions reported missing by the first, but %d are reported missing again", len(still), len(missing2))
			}
			if !bytes.Equal(enc(types.V2Block(full2)), blkBytes) {
				return stats.Failf("C18/outline-incremental", "block completed in two steps differs from the original (subset %b)", mask)
			}
			rec.Label("outline:completed-in-two-steps")
		}
		// full pool: omitted transactions reversed, mixed with decoys
		pool1 := append(append([]types.Transaction(nil), decoysV1...), reverseV1(omitV1)...)
		pool2 := append(reverseV2(omitV2), decoys...)
		cp := bo
		cp.Transactions = append([]gateway.OutlineTransaction(nil), bo.Transactions...)
		full, missing := cp.Complete(parent, pool1, pool2)
		if len(missing) != 0 {
			return stats.Failf("C18/outline-complete", "pool contains every omitted transaction but %d are reported missing", len(missing))
		}
		if !bytes.Equal(enc(types.V2Block(full)), blkBytes) {
			return stats.Failf("C18/outline-complete", "completed block differs from the original (subset %b)", mask)
		}
		rec.Extra("outline_subsets", 1)
		if len(wantMissing) > len(omitted) {
			rec.Label("outline:repeated-transaction-omitted")
		}
	}

	ls := leavesOf(txns)
	trees := map[int]bool{}
	shared := false
	for i, l := range ls {
		trees[l.tree] = true
		for _, m := range ls[:i] {
			if m.tree == l.tree && m.idx != l.idx && (m.idx>>2) == (l.idx>>2) {
				shared = true
			}
			if m.tree == l.tree && m.idx == l.idx {
				rec.Label("duplicate-leaf")
			}
		}
	}
	nt := len(ls) >= 3 && shared && len(trees) >= 2
	labels := []string{fmt.Sprintf("proofs:%s", bucket(len(ls))), fmt.Sprintf("trees:%d", len(trees))}
	if shared {
		labels = append(labels, "shared-subtree")
	}
	fp := uint64(0)
	for _, l := range ls {
		fp = fp*1099511628211 + l.idx*31 + uint64(l.tree)
	}
	rec.Case(stats.FP(fp, parent.Elements.NumLeaves, len(txns)), nt, labels...)
	if nt && rec.WantSample() {
		rec.Sample(true, map[string]any{"height": parent.Index.Height + 1, "leaves": ls, "numLeaves": parent.Elements.NumLeaves, "multiproof_bytes": len(mp), "plain_bytes": len(before)})
	}
	return nil
}

func bucket(n int) string {
	switch {
	case n == 0:
		return "0"
	case n < 3:
		return "1-2"
	case n < 8:
		return "3-7"
	}
	return "8+"
}

func sameHashes(a, b []types.Hash256) bool {
	if len(a) != len(b) {
		return false
	}
	for i := range a {
		if a[i] != b[i] {
			return false
		}
	}
	return true
}

func reverseV1(s []types.Transaction) []types.Transaction {
	out := make([]types.Transaction, len(s))
	for i := range s {
		out[len(s)-1-i] = s[i]
	}
	return out
}

func reverseV2(s []types.V2Transaction) []types.V2Transaction {
	out := make([]types.V2Transaction, len(s))
	for i := range s {
		out[len(s)-1-i] = s[i]
	}
	return out
}

func check(c sim.ChainCase) error {
	prevOutlineRaw = nil // per case: a replayed case sees exactly the sequence of outlines the generated case saw
	var decoys []types.V2Transaction
	var decoysV1 []types.Transaction
	hooks := sim.Hooks{
		BeforeApply: func(ch *sim.Chain, st *sim.Step) error {
			err := checkBlock(ch, ch.Tip(), *st.Block, *st.Supp, decoys, decoysV1)
			// transactions of earlier blocks serve as decoys in later pools
			if st.Block.V2 != nil {
				for _, t := range st.Block.V2.Transactions {
					if len(decoys) < 6 {
						decoys = append(decoys, sim.CloneV2(t))
					}
				}
			}
			for _, t := range st.Block.Transactions {
				if len(decoysV1) < 4 {
					decoysV1 = append(decoysV1, sim.CloneV1(t))
				}
			}
			return err
		},
	}
	if _, err := sim.Replay(c, hooks); err != nil {
		if _, ok := err.(*stats.Failure); ok {
			return err
		}
		return stats.Failf("C18/replay", "%v", err)
	}
	return nil
}

func TestLossless(t *testing.T)       { stats.Prop(t, draw, check) }
func TestReplayLossless(t *testing.T) { stats.Replay(t, "TestLossless", check) }
func TestRegress(t *testing.T)        { stats.Regress(t, "TestLossless", check) }
