// C03 — Spends, revisions, renewals, attestations need content-binding authorization.
//
// Domain: valid signed transactions produced by the simulator inside valid blocks (v1 with
// whole-transaction and partial covered fields; v2 under every policy kind; contracts,
// revisions, renewals, attestations, Foundation updates). Single-point tamperings
// (harness/sim/adv_auth.go): balance-preserving content changes, witness changes, key /
// policy / unlock-condition substitution, v2 separation of mechanisms (re-sign only the
// contract or only the inputs), revision signed by the proposed keys, unauthorized
// Foundation updates.
// Oracle: tampered + re-sealed block rejected, untampered accepted (it is applied next).
// A content tamper is asserted only if its control — the same tampered content honestly
// re-signed by all parties — is accepted, i.e. if nothing but the authorization was wrong.
package c03

import (
	"fmt"
	"strings"
	"testing"

	"go.sia.tech/core/consensus"
	"go.sia.tech/core/types"
	"pgregory.net/rapid"
	"verif/harness/sim"
	"verif/harness/stats"
)

func TestMain(m *testing.M) { stats.Main(m) }

func draw(t *rapid.T) sim.ChainCase {
	g := sim.GenChain(t, sim.GenOpts{
		Net:       sim.NetOpts{MaxForkHeight: rapid.SampledFrom([]int{6, 12, 25}).Draw(t, "forkSpan"), V2Only: rapid.IntRange(0, 3).Draw(t, "v2only") == 0},
		MinBlocks: 8, MaxBlocks: 30, Reorgs: false, Profile: sim.Profile{Contracts: 2, MaxTxns: 5},
		OnBlock: func(g *sim.Gen, b *sim.Builder) {
			// the contract "as it currently stands" inside a block: a revision (possibly rotating a key) followed by
			// another revision or a renewal of the same contract, each signed by the then-current keys
			if rapid.IntRange(0, 4).Draw(g.T, "reviseScenario") == 0 {
				if b.V1Revise() {
					b.V1ReviseAgainInBlock()
				}
				b.AfterV1(func() {
					if b.V2Revise() {
						if rapid.Bool().Draw(g.T, "againOrRenew") {
							b.V2ReviseAgainInBlock()
						} else {
							b.V2RenewRevisedInBlock()
						}
					}
				})
			}
		},
		BeforeApply: func(g *sim.Gen, honest types.Block, bs consensus.V1BlockSupplement) {
			if len(honest.Transactions)+len(honest.V2Transactions()) > 0 && rapid.IntRange(0, 2).Draw(g.T, "probeHere") == 0 {
				g.NewAdv(honest).AuthProbes(2)
			}
		},
	})
	c, err := g.Case.Normalize()
	if err != nil {
		panic(err)
	}
	return c
}

func errClass(err error) string {
	s := err.Error()
	for _, k := range []string{"signature", "unlock conditions", "policy", "preimage", "Foundation", "superfluous", "threshold"} {
		if strings.Contains(s, k) {
			return k
		}
	}
	return "other"
}

func check(c sim.ChainCase) error {
	rec := stats.G()
	hooks := sim.Hooks{
		Probe: func(ch *sim.Chain, st *sim.Step) error {
			id := st.Block.ID()
			if st.Control != nil {
				if cerr := consensus.ValidateBlock(ch.Tip(), *st.Control, *st.ControlSupp); cerr != nil {
					// the tamper is wrong for a reason other than authorization: not a C03 case
					rec.Case(stats.FP(st.Label, id[:]), false, "non-isolating:"+st.Label)
					return nil
				}
			}
			err := consensus.ValidateBlock(ch.Tip(), *st.Block, *st.Supp)
			if st.Want != "reject" {
				return fmt.Errorf("harness: unknown want %q", st.Want)
			}
			if err == nil {
				return stats.Failf("C03/"+st.Label, "tampered block (%s) was ACCEPTED at height %d although its authorization does not cover the tampered content", st.Label, ch.Height()+1)
			}
			rec.Case(stats.FP(st.Label, id[:]), true, "op:"+st.Label, "rejected-for:"+errClass(err))
			if rec.WantSample() {
				rec.Sample(true, map[string]any{"operator": st.Label, "height": ch.Height() + 1, "verdict": err.Error(), "has_control": st.Control != nil})
			}
			return nil
		},
	}
	if _, err := sim.Replay(c, hooks); err != nil {
		if _, ok := err.(*stats.Failure); ok {
			return err
		}
		return stats.Failf("C03/replay", "%v", err)
	}
	rec.Extra("chains", 1)
	return nil
}

func TestTamper(t *testing.T)       { stats.Prop(t, draw, check) }
func TestReplayTamper(t *testing.T) { stats.Replay(t, "TestTamper", check) }
func TestRegress(t *testing.T)      { stats.Regress(t, "TestTamper", check) }

// TestRegressClaimAddress is the regression probe for the fixed defect
// C03/v2/content/siafund-claim-address (the v2 semantic encoding omitted the siafund claim
// address). A saved block cannot serve here because the fix changes the signature hash, so
// the case is regenerated deterministically (rapid's Example with fixed seeds) until it
// contains the tamper, and then judged by the ordinary checker.
func TestRegressClaimAddress(t *testing.T) {
	found := 0
	for seed := 1; seed <= 400 && found < 3; seed++ {
		c := rapid.Custom(draw).Example(seed)
		has := false
		for _, st := range c.Steps {
			has = has || (st.Op == "probe" && st.Label == "v2/content/siafund-claim-address")
		}
		if !has {
			continue
		}
		found++
		if err := stats.Safe("", func() error { return check(c) }); err != nil {
			stats.WriteReplay("TestTamper", c, err)
			t.Fatalf("seed %d: %v", seed, err)
		}
	}
	if found == 0 {
		t.Fatalf("no generated case contains the claim-address tamper")
	}
	stats.G().Extra("regress_claim_address_cases", uint64(found))
}
