// C09 — Validation and application are deterministic, side-effect free, concurrency-safe.
//
// Domain: simulator states and blocks, valid and adversarial (probes derived by the C02/C03
// operators). Oracles: (1) purity: byte snapshots (plain proof-carrying encodings) of block,
// supplement and state before/after ValidateBlock, ApplyBlock, RevertBlock,
// NewMidState+Validate/Apply(V2)Transaction, both block encodings, ID/weight helpers; (2)
// determinism: repeated calls give the same verdict text, byte-identical state and identical
// diffs (proofs included); (3) transaction-at-a-time validation over an evolving MidState
// gives the same verdict as ValidateBlock; (4) provenance independence: the block as given, its
// binary decode(encode()) copy, a DeepCopy of its transactions and a copy whose proofs all
// alias one shared backing array give the same verdict, state and diffs; (5) copy isolation:
// every byte reachable from V2Transaction.DeepCopy / element Copy() results is mutated by a
// reflective walker and the original must be unchanged (and vice versa); (6) concurrency: G
// goroutines call validate / apply / revert / ID / sighash / address functions on the same
// inputs at once (barrier start), results equal the sequential ones; this unit also runs in a
// -race build.
package c09

import (
	"bytes"
	"encoding/json"
	"fmt"
	"reflect"
	"regexp"
	"sync"
	"testing"

	"go.sia.tech/core/consensus"
	"go.sia.tech/core/types"
	"pgregory.net/rapid"
	"verif/harness/gen"
	"verif/harness/sim"
	"verif/harness/stats"
)

func TestMain(m *testing.M) { stats.Main(m) }

func draw(t *rapid.T) sim.ChainCase { return drawWith(t, false) }

// drawConc: the concurrent unit runs under the race detector with up to 16 goroutines per block; transactions with
// hundreds of inputs or outputs add minutes there and nothing to the schedule space
func drawConc(t *rapid.T) sim.ChainCase { return drawWith(t, true) }

func drawWith(t *rapid.T, noBig bool) sim.ChainCase {
	max := 26
	if stats.EnvInt("C09_SMALL", 0) == 1 {
		max = 14
	}
	g := sim.GenChain(t, sim.GenOpts{
		Net:       sim.NetOpts{MaxForkHeight: rapid.SampledFrom([]int{4, 10, 20}).Draw(t, "forkSpan"), V2Only: rapid.IntRange(0, 2).Draw(t, "v2only") == 0},
		MinBlocks: 6, MaxBlocks: max, Reorgs: false, StrayProofs: true, NoBig: noBig, Profile: sim.Profile{Contracts: 1, MaxTxns: 6},
		BeforeApply: func(g *sim.Gen, honest types.Block, bs consensus.V1BlockSupplement) {
			if rapid.IntRange(0, 3).Draw(g.T, "probeHere") == 0 {
				g.NewAdv(honest).AuthProbes(1)
				g.NewAdv(honest).DoubleSpendProbes()
			}
		},
	})
	c, err := g.Case.Normalize()
	if err != nil {
		panic(err)
	}
	return c
}

func enc(e types.EncoderTo) []byte {
	var buf bytes.Buffer
	en := types.NewEncoder(&buf)
	e.EncodeTo(en)
	en.Flush()
	return buf.Bytes()
}

// snapBlock is the proof-carrying byte image of a block and its supplement.
func snapBlock(b types.Block, bs consensus.V1BlockSupplement) []byte {
	var buf bytes.Buffer
	en := types.NewEncoder(&buf)
	types.V1Block(b).EncodeTo(en)
	en.WriteBool(b.V2 != nil)
	if b.V2 != nil {
		en.WriteUint64(b.V2.Height)
		b.V2.Commitment.EncodeTo(en)
		types.EncodeSlice(en, b.V2.Transactions)
	}
	bs.EncodeTo(en)
	en.Flush()
	return buf.Bytes()
}

func snapState(s consensus.State) []byte {
	out := sim.StateBytes(s)
	if s.Network != nil {
		out = append(out, []byte(fmt.Sprintf("%+v", *s.Network))...)
	}
	return out
}

// verdict is what a call decided: accepted, or refused and for which rule. Which of several offending elements a
// refusal happens to name is not part of it (a transaction with two under-signed parents is refused with "parent X has
// missing signatures" for whichever of the two the validator's map yields first - the same verdict either way), so
// element and transaction IDs are blanked before verdicts are compared.
func verdict(err error) string {
	if err == nil {
		return "<accepted>"
	}
	return hexID.ReplaceAllString(err.Error(), "<id>")
}

var hexID = regexp.MustCompile(`[0-9a-f]{64}`)

func diffsOf(d sim.Diffs) string {
	sc, sf, fc, v2fc, ci := sim.CanonDiffs(d, true)
	return fmt.Sprint(sc, sf, fc, v2fc, ci)
}

// fold validates and applies the block's transactions one at a time over a MidState.
func fold(cs consensus.State, b types.Block, bs consensus.V1BlockSupplement) error {
	return foldWith(cs, b, bs, false)
}

// foldWith validates the block one transaction at a time on one MidState. With rejects set, every transaction is
// preceded - on the same MidState, the way a transaction pool assembles a block and skips what it has to refuse - by
// variants of itself that validation must refuse only after having accepted part of them (a contract operation or an
// input repeated at the end, a transaction that spends more than it has); their verdicts are discarded (recovering from a
// panic, too). A refused transaction must leave the intermediate state as it found it.
func foldWith(cs consensus.State, b types.Block, bs consensus.V1BlockSupplement, rejects bool) error {
	ms := consensus.NewMidState(cs)
	try := func(f func()) {
		defer func() { recover() }()
		f()
	}
	for i, txn := range b.Transactions {
		if i >= len(bs.Transactions) {
			return fmt.Errorf("supplement too short")
		}
		if rejects {
			for _, bad := range refusedV1(txn) {
				bad := bad
				try(func() { _ = consensus.ValidateTransaction(ms, bad, bs.Transactions[i]) })
			}
		}
		if err := consensus.ValidateTransaction(ms, txn, bs.Transactions[i]); err != nil {
			return fmt.Errorf("transaction %d is invalid: %w", i, err)
		}
		ms.ApplyTransaction(txn, bs.Transactions[i])
	}
	for i, txn := range b.V2Transactions() {
		if rejects {
			for _, bad := range refusedV2(txn) {
				bad := bad
				try(func() { _ = consensus.ValidateV2Transaction(ms, bad) })
			}
		}
		if err := consensus.ValidateV2Transaction(ms, txn); err != nil {
			return fmt.Errorf("v2 transaction %d is invalid: %w", i, err)
		}
		ms.ApplyV2Transaction(txn)
	}
	return nil
}

// refusedV2 builds variants of txn that are refused late: the last element of a populated list is listed once more
// (the first copy passes its checks, the repeat is refused), and the miner fee is raised beyond the inputs.
func refusedV2(txn types.V2Transaction) []types.V2Transaction {
	var out []types.V2Transaction
	add := func(f func(x *types.V2Transaction)) {
		x := sim.CloneV2(txn)
		f(&x)
		out = append(out, x)
	}
	if n := len(txn.FileContractRevisions); n > 0 {
		add(func(x *types.V2Transaction) {
			x.FileContractRevisions = append(x.FileContractRevisions, x.FileContractRevisions[n-1])
		})
	}
	if n := len(txn.FileContractResolutions); n > 0 {
		add(func(x *types.V2Transaction) {
			x.FileContractResolutions = append(x.FileContractResolutions, x.FileContractResolutions[n-1])
		})
	}
	if n := len(txn.SiacoinInputs); n > 0 {
		add(func(x *types.V2Transaction) { x.SiacoinInputs = append(x.SiacoinInputs, x.SiacoinInputs[n-1]) })
		add(func(x *types.V2Transaction) { x.MinerFee = x.MinerFee.Add(types.NewCurrency64(1)) })
	}
	if n := len(txn.SiafundInputs); n > 0 {
		add(func(x *types.V2Transaction) { x.SiafundInputs = append(x.SiafundInputs, x.SiafundInputs[n-1]) })
	}
	return out
}

func refusedV1(txn types.Transaction) []types.Transaction {
	var out []types.Transaction
	add := func(f func(x *types.Transaction)) {
		x := sim.CloneV1(txn)
		f(&x)
		out = append(out, x)
	}
	if n := len(txn.FileContractRevisions); n > 0 {
		add(func(x *types.Transaction) {
			x.FileContractRevisions = append(x.FileContractRevisions, x.FileContractRevisions[n-1])
		})
	}
	if n := len(txn.StorageProofs); n > 0 {
		add(func(x *types.Transaction) { x.StorageProofs = append(x.StorageProofs, x.StorageProofs[n-1]) })
	}
	if n := len(txn.SiacoinInputs); n > 0 {
		add(func(x *types.Transaction) { x.SiacoinInputs = append(x.SiacoinInputs, x.SiacoinInputs[n-1]) })
		add(func(x *types.Transaction) { x.MinerFees = append(x.MinerFees, types.NewCurrency64(1)) })
	}
	return out
}

// aliasProofs returns a copy of b whose Merkle proofs are all sub-slices of one backing array.
func aliasProofs(b types.Block) types.Block {
	c := sim.CloneBlock(b)
	if c.V2 == nil {
		return c
	}
	var all []types.Hash256
	var ses []*types.StateElement
	for i := range c.V2.Transactions {
		t := &c.V2.Transactions[i]
		for j := range t.SiacoinInputs {
			ses = append(ses, &t.SiacoinInputs[j].Parent.StateElement)
		}
		for j := range t.SiafundInputs {
			ses = append(ses, &t.SiafundInputs[j].Parent.StateElement)
		}
		for j := range t.FileContractRevisions {
			ses = append(ses, &t.FileContractRevisions[j].Parent.StateElement)
		}
		for j := range t.FileContractResolutions {
			ses = append(ses, &t.FileContractResolutions[j].Parent.StateElement)
			if sp, ok := t.FileContractResolutions[j].Resolution.(*types.V2StorageProof); ok {
				ses = append(ses, &sp.ProofIndex.StateElement)
			}
		}
	}
	for _, se := range ses {
		all = append(all, se.MerkleProof...)
	}
	backing := make([]types.Hash256, len(all), len(all)+64)
	copy(backing, all)
	off := 0
	for _, se := range ses {
		n := len(se.MerkleProof)
		se.MerkleProof = backing[off : off+n] // capacity extends over the following proofs
		off += n
	}
	return c
}

func binaryCopy(b types.Block) (types.Block, error) {
	var d types.V2Block
	dec := types.NewBufDecoder(enc(types.V2Block(b)))
	d.DecodeFrom(dec)
	return types.Block(d), dec.Err()
}

// scramble mutates every settable byte reachable from v.
func scramble(v reflect.Value) int {
	n := 0
	switch v.Kind() {
	case reflect.Ptr, reflect.Interface:
		if !v.IsNil() {
			n += scramble(v.Elem())
		}
	case reflect.Struct:
		if v.Type() == reflect.TypeOf(types.StateElement{}) {
			// exported fields only (the ownership flag is not data)
			n += scramble(v.FieldByName("LeafIndex"))
			n += scramble(v.FieldByName("MerkleProof"))
			return n
		}
		for i := 0; i < v.NumField(); i++ {
			if v.Type().Field(i).IsExported() {
				n += scramble(v.Field(i))
			}
		}
	case reflect.Slice:
		for i := 0; i < v.Len(); i++ {
			n += scramble(v.Index(i))
		}
	case reflect.Array:
		for i := 0; i < v.Len(); i++ {
			n += scramble(v.Index(i))
		}
	case reflect.Uint8, reflect.Uint16, reflect.Uint32, reflect.Uint64, reflect.Uint:
		if v.CanSet() {
			v.SetUint(v.Uint() ^ 1)
			n++
		}
	case reflect.Int, reflect.Int64:
		if v.CanSet() {
			v.SetInt(v.Int() ^ 1)
			n++
		}
	case reflect.Bool:
		if v.CanSet() {
			v.SetBool(!v.Bool())
			n++
		}
	}
	return n
}

func checkCopies(b types.Block) error {
	rec := stats.G()
	for i := range b.V2Transactions() {
		orig := sim.CloneV2(b.V2.Transactions[i])
		before := enc(orig)
		cp := orig.DeepCopy()
		if !bytes.Equal(enc(cp), before) {
			return stats.Failf("C09/deepcopy-equal", "V2Transaction.DeepCopy is not equal to its original")
		}
		k := scramble(reflect.ValueOf(&cp))
		if !bytes.Equal(enc(orig), before) {
			return stats.Failf("C09/deepcopy-aliases", "mutating every byte reachable from V2Transaction.DeepCopy() changed the original (shared mutable memory); transaction %s", describe(orig))
		}
		cp2 := orig.DeepCopy()
		want := enc(cp2)
		scramble(reflect.ValueOf(&orig))
		if !bytes.Equal(enc(cp2), want) {
			return stats.Failf("C09/deepcopy-aliases", "mutating the original changed its DeepCopy (shared mutable memory); transaction %s", describe(cp2))
		}
		rec.Extra("copy_bytes_scrambled", uint64(k))
		rec.Label("copy:V2Transaction.DeepCopy")
	}
	return nil
}

func describe(t types.V2Transaction) string {
	s := ""
	if len(t.SiacoinInputs) > 0 {
		s += fmt.Sprintf("in:%T ", t.SiacoinInputs[0].SatisfiedPolicy.Policy.Type)
	}
	for _, r := range t.FileContractResolutions {
		s += fmt.Sprintf("res:%T ", r.Resolution)
	}
	if t.NewFoundationAddress != nil {
		s += "foundation "
	}
	return s
}

// checkElementCopies exercises Copy() of every element kind held by the store.
func checkElementCopies(st *sim.Store) error {
	type copier interface{ EncodeTo(*types.Encoder) }
	try := func(name string, orig, cp any) error {
		before := fmt.Sprintf("%+v", reflect.ValueOf(orig).Elem().Interface())
		scramble(reflect.ValueOf(cp))
		if after := fmt.Sprintf("%+v", reflect.ValueOf(orig).Elem().Interface()); before != after {
			return stats.Failf("C09/element-copy-aliases/"+name, "mutating every byte reachable from %s.Copy() changed the original (shared mutable memory)", name)
		}
		stats.G().Label("copy:" + name)
		return nil
	}
	for _, e := range st.SortedSC() {
		o := e
		o.StateElement.MerkleProof = append([]types.Hash256(nil), e.StateElement.MerkleProof...)
		c := o.Copy()
		if err := try("SiacoinElement", &o, &c); err != nil {
			return err
		}
		break
	}
	for _, e := range st.SortedSF() {
		o := e
		o.StateElement.MerkleProof = append([]types.Hash256(nil), e.StateElement.MerkleProof...)
		c := o.Copy()
		if err := try("SiafundElement", &o, &c); err != nil {
			return err
		}
		break
	}
	for _, e := range st.SortedFC() {
		o := e
		o.StateElement.MerkleProof = append([]types.Hash256(nil), e.StateElement.MerkleProof...)
		o.FileContract.ValidProofOutputs = append([]types.SiacoinOutput(nil), e.FileContract.ValidProofOutputs...)
		o.FileContract.MissedProofOutputs = append([]types.SiacoinOutput(nil), e.FileContract.MissedProofOutputs...)
		c := o.Copy()
		if err := try("FileContractElement", &o, &c); err != nil {
			return err
		}
		break
	}
	for _, e := range st.SortedV2FC() {
		o := e
		o.StateElement.MerkleProof = append([]types.Hash256(nil), e.StateElement.MerkleProof...)
		c := o.Copy()
		if err := try("V2FileContractElement", &o, &c); err != nil {
			return err
		}
		break
	}
	if len(st.CI) > 0 {
		o := st.CI[len(st.CI)/2]
		o.StateElement.MerkleProof = append([]types.Hash256(nil), o.StateElement.MerkleProof...)
		c := o.Copy()
		if err := try("ChainIndexElement", &o, &c); err != nil {
			return err
		}
	}
	ae := types.AttestationElement{StateElement: types.StateElement{LeafIndex: 3, MerkleProof: []types.Hash256{{1}, {2}}}, Attestation: types.Attestation{Key: "k", Value: []byte{1, 2, 3}}}
	c := ae.Copy()
	if err := try("AttestationElement", &ae, &c); err != nil {
		return err
	}
	_ = copier(nil)
	return nil
}

type outcome struct {
	verdict string
	state   []byte
	diffs   string
}

func run(ch *sim.Chain, b types.Block, bs consensus.V1BlockSupplement) outcome {
	cs := ch.Tip()
	var o outcome
	err := consensus.ValidateBlock(cs, b, bs)
	o.verdict = verdict(err)
	if err == nil {
		s, au := consensus.ApplyBlock(cs, b, bs, ch.TargetTimestamp(cs.Index.Height+1))
		o.state = sim.StateBytes(s)
		o.diffs = diffsOf(au)
		ru := consensus.RevertBlock(cs, b, bs)
		o.diffs += "|" + diffsOf(ru)
	}
	return o
}

func (o outcome) equal(p outcome) bool {
	return o.verdict == p.verdict && bytes.Equal(o.state, p.state) && o.diffs == p.diffs
}

func checkBlock(ch *sim.Chain, b types.Block, bs consensus.V1BlockSupplement, label string, goroutines int) error {
	rec := stats.G()
	cs := ch.Tip()
	bSnap, sSnap := snapBlock(b, bs), snapState(cs)
	pure := func(what string) error {
		if !bytes.Equal(snapBlock(b, bs), bSnap) {
			return stats.Failf("C09/purity/"+what, "%s modified the block or its supplement (%s)", what, label)
		}
		if !bytes.Equal(snapState(cs), sSnap) {
			return stats.Failf("C09/purity/"+what, "%s modified the state or its network (%s)", what, label)
		}
		return nil
	}
	for _, t := range b.Transactions {
		switch n := len(t.SiacoinInputs); {
		case n > 64:
			rec.Label("shape:v1-transaction-with->64-siacoin-inputs")
		case n > 16:
			rec.Label("shape:v1-transaction-with-17..64-siacoin-inputs")
		}
	}
	for _, t := range b.V2Transactions() {
		if len(t.SiacoinInputs) > 64 {
			rec.Label("shape:v2-transaction-with->64-siacoin-inputs")
		}
	}
	// (1)+(2) purity and determinism
	first := run(ch, b, bs)
	firstID := b.ID()
	if err := pure("ValidateBlock/ApplyBlock/RevertBlock"); err != nil {
		return err
	}
	second := run(ch, b, bs)
	if !first.equal(second) {
		return stats.Failf("C09/determinism", "two runs on the same inputs differ: %q vs %q (%s)", first.verdict, second.verdict, label)
	}
	_ = b.ID()
	_ = enc(types.V1Block(b))
	_ = enc(types.V2Block(b))
	for _, t := range b.Transactions {
		_, _, _ = t.ID(), t.FullHash(), cs.TransactionWeight(t)
	}
	for _, t := range b.V2Transactions() {
		_, _, _, _ = t.ID(), t.FullHash(), cs.V2TransactionWeight(t), cs.InputSigHash(t)
	}
	if err := pure("ID/encoding/weight/sighash helpers"); err != nil {
		return err
	}
	// (3) transaction at a time
	accepted := first.verdict == "<accepted>"
	txStage := len(first.verdict) > 12 && (first.verdict[:12] == "transaction " || (len(first.verdict) > 15 && first.verdict[:15] == "v2 transaction "))
	if accepted || txStage {
		ferr := fold(cs, b, bs)
		if err := pure("MidState validate/apply"); err != nil {
			return err
		}
		if (ferr == nil) != accepted {
			return stats.Failf("C09/txn-at-a-time", "ValidateBlock says %q but validating the transactions one at a time says %q (%s)", first.verdict, verdict(ferr), label)
		}
		if ferr != nil && ferr.Error() != first.verdict {
			// the property speaks about the verdict, not the wording: a differently worded rejection is recorded only
			rec.Label("txn-at-a-time:rejection-worded-differently")
		}
		rec.Label("txn-at-a-time:" + map[bool]string{true: "accepted", false: "rejected"}[accepted])
		// (3b) the same with refused variants of every transaction validated first on the same intermediate state
		rerr := foldWith(cs, b, bs, true)
		if err := pure("MidState validate/apply with refused transactions in between"); err != nil {
			return err
		}
		if (rerr == nil) != (ferr == nil) {
			return stats.Failf("C09/refused-transaction-leaves-residue", "validated one at a time the block's transactions give %q, but %q when refused variants of them are validated on the same MidState first (%s)", verdict(ferr), verdict(rerr), label)
		}
	}
	// (4) provenance
	if accepted || txStage {
		if bc, err := binaryCopy(b); err == nil && !accepted && !bytes.Equal(snapBlock(bc, bs), bSnap) {
			// the compressed multiproof form is specified only for proofs that are valid for one state;
			// an adversarial block with unsound proofs does not survive it unchanged: nothing to compare
			rec.Label("provenance:binary-copy-undefined-for-invalid-proofs")
		} else if err == nil {
			if herr := gen.AppendHazard(reflect.ValueOf(&bc).Elem()); herr != nil {
				return stats.Failf("C09/provenance/binary-copy", "the decoded copy shares mutable memory between its own elements: %v (%s)", herr, label)
			}
			if o := run(ch, bc, bs); !o.equal(first) {
				return stats.Failf("C09/provenance/binary-copy", "decode(encode(b)) behaves differently: %q vs %q (%s)", first.verdict, o.verdict, label)
			}
			rec.Label("provenance:binary-copy")
		} else if accepted {
			return stats.Failf("C09/provenance/binary-copy", "a valid block does not survive its own binary encoding: %v", err)
		}
		dc := sim.CloneBlock(b)
		if dc.V2 != nil {
			for i := range dc.V2.Transactions {
				dc.V2.Transactions[i] = b.V2.Transactions[i].DeepCopy()
			}
		}
		if herr := gen.AppendHazard(reflect.ValueOf(&dc).Elem()); herr != nil {
			return stats.Failf("C09/copy-isolation", "DeepCopy returns transactions whose lists share memory with spare capacity: %v (%s)", herr, label)
		}
		if o := run(ch, dc, bs); !o.equal(first) {
			return stats.Failf("C09/provenance/deep-copy", "DeepCopy of the transactions behaves differently: %q vs %q (%s)", first.verdict, o.verdict, label)
		}
		ab := aliasProofs(b)
		abSnap := snapBlock(ab, bs)
		if o := run(ch, ab, bs); !o.equal(first) {
			return stats.Failf("C09/provenance/aliased-proofs", "a copy whose proofs share one backing array behaves differently: %q vs %q (%s)", first.verdict, o.verdict, label)
		}
		if !bytes.Equal(snapBlock(ab, bs), abSnap) {
			return stats.Failf("C09/purity/aliased-proofs", "processing a block whose proofs share one backing array (with spare capacity) modified it (%s)", label)
		}
		rec.Label("provenance:aliased-proofs")
	}
	// (5) history independence: calls of the library's documented-to-panic helpers that abort half-way (and are
	// recovered by the caller, as an RPC handler would) must not influence what the next calls on the same
	// inputs return: every pooled hasher / shared scratch object has to come back clean
	if aborted := sim.AbortedCalls(cs, b); aborted > 0 {
		if o := run(ch, b, bs); !o.equal(first) {
			return stats.Failf("C09/history/after-recovered-panic", "after %d recovered panics in sighash/ID helpers the same inputs give a different result: %q vs %q (%s)", aborted, first.verdict, o.verdict, label)
		}
		if id2 := b.ID(); id2 != firstID {
			return stats.Failf("C09/history/after-recovered-panic", "block ID changed after recovered panics in other calls (%s)", label)
		}
		if err := pure("recovered aborted helper calls"); err != nil {
			return err
		}
		rec.Label("history:after-recovered-panics")
	}
	// (6) concurrency
	overlapped := 0
	if goroutines > 1 {
		var wg sync.WaitGroup
		start := make(chan struct{})
		outs := make([]outcome, goroutines)
		ids := make([]types.BlockID, goroutines)
		// the wire forms of the same block, produced while the other goroutines validate, apply and encode it too
		wire := func() (out [3]string) {
			defer func() {
				if r := recover(); r != nil {
					out[0] = fmt.Sprintf("panic: %v", r)
				}
			}()
			out[0] = string(snapBlock(b, bs))
			if first.verdict == "<accepted>" {
				out[1] = string(enc(types.V2Block(b))) // compressed (multiproof) form: defined for blocks with valid proofs
			}
			if js, err := json.Marshal(b); err == nil {
				out[2] = string(js)
			}
			return
		}
		wireSeq := wire()
		wires := make([][3]string, goroutines)
		var mu sync.Mutex
		running, maxRunning := 0, 0
		for g := 0; g < goroutines; g++ {
			wg.Add(1)
			go func(g int) {
				defer wg.Done()
				<-start
				mu.Lock()
				running++
				if running > maxRunning {
					maxRunning = running
				}
				mu.Unlock()
				outs[g] = run(ch, b, bs)
				ids[g] = b.ID()
				wires[g] = wire()
				for _, t := range b.V2Transactions() {
					_ = cs.InputSigHash(t)
					for _, in := range t.SiacoinInputs {
						_ = in.SatisfiedPolicy.Policy.Address()
					}
				}
				for _, t := range b.Transactions {
					_ = t.ID()
					for _, in := range t.SiacoinInputs {
						_ = in.UnlockConditions.UnlockHash()
					}
				}
				mu.Lock()
				running--
				mu.Unlock()
			}(g)
		}
		close(start)
		wg.Wait()
		overlapped = maxRunning
		for g := range outs {
			if !outs[g].equal(first) || ids[g] != b.ID() {
				return stats.Failf("C09/concurrency", "goroutine %d of %d got a different result than the sequential run: %q vs %q (%s)", g, goroutines, outs[g].verdict, first.verdict, label)
			}
			for k, form := range []string{"plain binary", "compressed binary", "JSON"} {
				if wires[g][k] != wireSeq[k] {
					return stats.Failf("C09/concurrency/encoding", "goroutine %d of %d produced a different %s encoding of the block than a lone caller (%d vs %d bytes) (%s)", g, goroutines, form, len(wires[g][k]), len(wireSeq[k]), label)
				}
			}
		}
		if err := pure("concurrent calls"); err != nil {
			return err
		}
		rec.Label(fmt.Sprintf("concurrent:%d-goroutines", goroutines))
	}
	nProofs := 0
	for _, t := range b.V2Transactions() {
		for _, in := range t.SiacoinInputs {
			if len(in.Parent.StateElement.MerkleProof) >= 3 {
				nProofs++
			}
		}
	}
	nt := len(b.Transactions)+len(b.V2Transactions()) >= 3 && (nProofs > 0 || b.V2 == nil)
	if goroutines > 1 {
		nt = nt && overlapped >= 4
	}
	id := b.ID()
	rec.Case(stats.FP(id[:], label, goroutines), nt, "kind:"+label)
	if nt && rec.WantSample() {
		rec.Sample(true, map[string]any{"height": cs.Index.Height + 1, "label": label, "verdict": first.verdict, "txns": len(b.Transactions) + len(b.V2Transactions()), "goroutines": goroutines, "overlapped": overlapped})
	}
	return nil
}

func checkWith(goroutinesFor func(i int) int) func(c sim.ChainCase) error {
	return func(c sim.ChainCase) error {
		i := 0
		// what the library returned stays what it was: the updates of the last few applied blocks are kept (as a chain
		// manager does until its subscribers have consumed them) together with their JSON form taken at once, and must
		// still have that form after every later apply, revert and validation
		type kept struct {
			au     consensus.ApplyUpdate
			js     string
			height uint64
		}
		var retained []kept
		stillSame := func(when string) error {
			for _, k := range retained {
				js, err := json.Marshal(k.au)
				if err != nil || string(js) != k.js {
					return stats.Failf("C09/retained-update", "the ApplyUpdate returned for the block at height %d changed %s (its JSON form differs from the one taken when it was returned; err %v)", k.height, when, err)
				}
			}
			return nil
		}
		// a client uses the updates it is given: it keeps a copy of every element (also of the ones a block spends or
		// revises) and refreshes the copies with each update's UpdateElementProof. Using an update is reading it: the
		// retained updates must still be what they were, whatever the client's elements go through afterwards.
		client := &sim.ProofFollower{Held: map[uint64]types.StateElement{}}
		var incomingV1 types.V1Block
		var incomingV2 types.V2Block
		var incomingSupp consensus.V1BlockSupplement
		var held *types.Block
		var heldSupp *consensus.V1BlockSupplement
		var heldEnc, heldSuppEnc []byte
		hooks := sim.Hooks{
			AfterApply: func(ch *sim.Chain, st *sim.Step, parent consensus.State, au consensus.ApplyUpdate) error {
				if err := stillSame(fmt.Sprintf("after the block at height %d was applied", ch.Height())); err != nil {
					return err
				}
				var js []byte
				var jerr error
				if js, jerr = json.Marshal(au); jerr == nil {
					retained = append(retained, kept{au, string(js), ch.Height()})
					if len(retained) > 4 {
						retained = retained[1:]
					}
				}
				if err := sim.ElementsHazard(au); err != nil {
					return stats.Failf("C09/created-elements-share-memory", "height %d: %v", ch.Height(), err)
				}
				client.Follow(au, ch.Tip().Elements.NumLeaves, ch.Store)
				if err := stillSame(fmt.Sprintf("when a client refreshed its elements with the update for height %d", ch.Height())); err != nil {
					return err
				}
				return nil
			},
			BeforeApply: func(ch *sim.Chain, st *sim.Step) error {
				i++
				if err := checkBlock(ch, *st.Block, *st.Supp, "honest", goroutinesFor(i)); err != nil {
					return err
				}
				// a node decodes the blocks (and supplements) it receives into one variable and hands the value on (queue,
				// cache, validator): the block decoded earlier must stay the block it was when the next one is decoded
				// into the same variable, and validating it must still give the verdict it gave
				if goroutinesFor(i) <= 1 {
					if held != nil {
						wasID, wasEnc := held.ID(), heldEnc
						dec := types.NewBufDecoder(enc(types.V1Block(*st.Block)))
						incomingV1.DecodeFrom(dec)
						if st.Block.V2 != nil {
							dec2 := types.NewBufDecoder(enc(types.V2Block(*st.Block)))
							incomingV2.DecodeFrom(dec2)
						}
						dsup := types.NewBufDecoder(enc(*st.Supp))
						incomingSupp.DecodeFrom(dsup)
						if held.ID() != wasID || !bytes.Equal(enc(types.V1Block(*held)), wasEnc) || !bytes.Equal(enc(*heldSupp), heldSuppEnc) {
							return stats.Failf("C09/decoded-block-changed-by-a-later-decode", "height %d: the block (or supplement) decoded earlier into the same variable changed when the next one was decoded", ch.Height()+1)
						}
					} else {
						incomingV1.DecodeFrom(types.NewBufDecoder(enc(types.V1Block(*st.Block))))
						if st.Block.V2 != nil {
							incomingV2.DecodeFrom(types.NewBufDecoder(enc(types.V2Block(*st.Block))))
						}
						incomingSupp.DecodeFrom(types.NewBufDecoder(enc(*st.Supp)))
					}
					hb := types.Block(incomingV1)
					if st.Block.V2 != nil {
						hb = types.Block(incomingV2)
					}
					hs := incomingSupp
					held, heldSupp = &hb, &hs
					heldEnc, heldSuppEnc = enc(types.V1Block(hb)), enc(hs)
					rec := stats.G()
					rec.Label("decoded-into-a-reused-variable")
				}
				if goroutinesFor(i) <= 1 {
					if err := checkCopies(*st.Block); err != nil {
						return err
					}
					if i%5 == 0 {
						return checkElementCopies(ch.Store)
					}
				}
				return nil
			},
			Probe: func(ch *sim.Chain, st *sim.Step) error {
				i++
				return checkBlock(ch, *st.Block, *st.Supp, "adversarial", goroutinesFor(i))
			},
		}
		if _, err := sim.Replay(c, hooks); err != nil {
			if _, ok := err.(*stats.Failure); ok {
				return err
			}
			return stats.Failf("C09/replay", "%v", err)
		}
		return nil
	}
}

var checkSeq = checkWith(func(int) int { return 1 })
var checkConc = checkWith(func(i int) int { return 2 + (i*5)%15 })

func TestPure(t *testing.T)             { stats.Prop(t, draw, checkSeq) }
func TestReplayPure(t *testing.T)       { stats.Replay(t, "TestPure", checkSeq) }
func TestConcurrent(t *testing.T)       { stats.Prop(t, drawConc, checkConc) }
func TestReplayConcurrent(t *testing.T) { stats.Replay(t, "TestConcurrent", checkConc) }
func TestRegress(t *testing.T)          { stats.Regress(t, "TestPure", checkSeq) }
