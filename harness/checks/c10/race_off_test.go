//go:build !race

package c10

const raceEnabled = false
