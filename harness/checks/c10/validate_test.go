package c10

// Validation half of C10: structure-aware hostile mutations of valid blocks (extreme currency
// values on every currency field, over/under-long proofs, out-of-range indices in covered fields,
// duplicated / missing / reordered parents, inputs, outputs and supplements, wide and deep
// policies, swapped resolution types, extreme heights and counts), optionally re-signed and
// re-sealed honestly so that the mutation reaches the deeper validation logic, judged against the
// simulator state they extend. Oracle: every validation entry point returns (no panic); a block
// that passes validation can be applied and reverted and is sound (accepted => sound oracle).

import (
	"fmt"
	"runtime"
	"testing"

	"go.sia.tech/core/consensus"
	"go.sia.tech/core/types"
	"pgregory.net/rapid"
	"verif/harness/sim"
	"verif/harness/stats"
)

func drawValidate(t *rapid.T) sim.ChainCase {
	g := sim.GenChain(t, sim.GenOpts{
		Net:       sim.NetOpts{MaxForkHeight: rapid.SampledFrom([]int{4, 10, 20}).Draw(t, "forkSpan"), V2Only: rapid.IntRange(0, 2).Draw(t, "v2only") == 0},
		MinBlocks: 6, MaxBlocks: 26, Reorgs: false, Profile: sim.Profile{Contracts: 2, MaxTxns: 5},
		HugeFiles: rapid.IntRange(0, 2).Draw(t, "hugeFiles") == 0, // contracts over virtual files of up to 2^64-1 bytes: sizes and leaf counts at the edge of every width
		BeforeApply: func(g *sim.Gen, honest types.Block, bs consensus.V1BlockSupplement) {
			if len(honest.Transactions)+len(honest.V2Transactions()) == 0 {
				return
			}
			k := rapid.IntRange(0, 6).Draw(g.T, "hostileProbes")
			cs := g.C.Tip()
			// value-level hostility that single-field mutation does not reach: amounts that cancel in wrapping arithmetic,
			// ephemeral parents with misstated values (alone and in pairs that wrap onto the genuine total)
			if rapid.IntRange(0, 2).Draw(g.T, "wrapProbes") == 0 {
				func() {
					defer func() {
						if r := recover(); r != nil {
							if _, isRuntime := r.(runtime.Error); !isRuntime {
								if _, isString := r.(string); !isString {
									panic(r)
								}
							}
						}
					}()
					g.NewAdv(honest).WrapProbes("total")
				}()
			}
			for i := 0; i < k; i++ {
				func() {
					// building / sealing a hostile structure may panic inside helper code that is not an entry
					// point for untrusted data (hashing a half-built value); such a probe is simply not produced
					defer func() {
						if r := recover(); r != nil {
							_, isRuntime := r.(runtime.Error)
							_, isString := r.(string)
							if !isRuntime && !isString {
								panic(r) // rapid's own control-flow panics must pass through
							}
						}
					}()
					blk := sim.CloneBlock(honest)
					sup := cloneSupp(bs)
					desc := ""
					if len(blk.Transactions) > 0 && rapid.IntRange(0, 4).Draw(g.T, "coveredFields") == 0 {
						if sim.HostileCoveredFields(g.T, &blk.Transactions[rapid.IntRange(0, len(blk.Transactions)-1).Draw(g.T, "cfTxn")]) {
							desc = "covered-fields-out-of-range; "
						}
					} else if rapid.IntRange(0, 5).Draw(g.T, "shape") == 0 {
						desc = sim.HostileShape(g.T, &blk, &sup)
						if rapid.Bool().Draw(g.T, "shapeAndValue") {
							desc += sim.HostileMutate(g.T, &blk, &sup)
						}
					} else if rapid.IntRange(0, 5).Draw(g.T, "crossKind") == 0 {
						desc = sim.HostileCrossKindID(g.T, cs, &blk, rapid.Bool().Draw(g.T, "padAttest"))
						if desc == "" {
							desc = sim.HostileMutate(g.T, &blk, &sup)
						}
					} else {
						desc = sim.HostileMutate(g.T, &blk, &sup)
					}
					mode := rapid.IntRange(0, 2).Draw(g.T, "resign")
					if mode >= 1 {
						// honest re-sign so that the mutation is judged by the rules behind the signature checks
						for j := range blk.Transactions {
							if desc != "covered-fields-out-of-range; " {
								sim.SignV1(cs, &blk.Transactions[j], false)
							}
						}
						if blk.V2 != nil {
							for j := range blk.V2.Transactions {
								safeSignV2(cs, &blk.V2.Transactions[j])
							}
						}
						desc += "re-signed; "
					}
					if mode == 2 || rapid.Bool().Draw(g.T, "reseal") {
						if sim.Reseal(cs, &blk) == nil {
							desc += "re-sealed; "
						} else {
							// fees overflow: keep the payouts as they are and just fix the header
							blk.ParentID = cs.Index.ID
							if blk.V2 != nil && len(blk.MinerPayouts) > 0 {
								blk.V2.Height = cs.Index.Height + 1
								blk.V2.Commitment = cs.Commitment(blk.MinerPayouts[0].Address, blk.Transactions, blk.V2Transactions())
							}
							sim.Mine(cs, &blk)
							desc += "header-sealed; "
						}
					}
					g.Probe(blk, sup, desc, "total", nil)
				}()
			}
		},
	})
	c, err := g.Case.Normalize()
	if err != nil {
		panic(err)
	}
	return c
}

// safeSignV2 re-signs a v2 transaction; signing helpers hash the transaction, which for
// hostile structures may itself panic inside the library's encoders — that would be a
// constructor-side panic on a value that cannot have been decoded, so it is swallowed here.
func safeSignV2(cs consensus.State, txn *types.V2Transaction) {
	defer func() { recover() }()
	sim.SignV2(cs, txn, sim.SignOpts{})
}

func cloneSupp(bs consensus.V1BlockSupplement) consensus.V1BlockSupplement {
	var out consensus.V1BlockSupplement
	for _, ts := range bs.Transactions {
		var c consensus.V1TransactionSupplement
		for _, e := range ts.SiacoinInputs {
			c.SiacoinInputs = append(c.SiacoinInputs, e.Copy())
		}
		for _, e := range ts.SiafundInputs {
			c.SiafundInputs = append(c.SiafundInputs, e.Copy())
		}
		for _, e := range ts.RevisedFileContracts {
			c.RevisedFileContracts = append(c.RevisedFileContracts, e.Copy())
		}
		for _, e := range ts.StorageProofs {
			c.StorageProofs = append(c.StorageProofs, consensus.V1StorageProofSupplement{FileContract: e.FileContract.Copy(), WindowID: e.WindowID})
		}
		out.Transactions = append(out.Transactions, c)
	}
	for _, e := range bs.ExpiringFileContracts {
		out.ExpiringFileContracts = append(out.ExpiringFileContracts, e.Copy())
	}
	return out
}

func hasLegacyEphemeral(cs consensus.State, b types.Block) bool {
	if cs.Index.Height+1 >= cs.Network.HardforkV2.EphemeralOutputHeight {
		return false
	}
	for _, t := range b.V2Transactions() {
		for _, in := range t.SiacoinInputs {
			if in.Parent.StateElement.LeafIndex == types.UnassignedLeafIndex {
				return true
			}
		}
		for _, in := range t.SiafundInputs {
			if in.Parent.StateElement.LeafIndex == types.UnassignedLeafIndex {
				return true
			}
		}
	}
	return false
}

func checkValidate(c sim.ChainCase) error {
	rec := stats.G()
	hooks := sim.Hooks{
		Probe: func(ch *sim.Chain, st *sim.Step) error {
			cs := ch.Tip()
			b, bs := *st.Block, *st.Supp
			id := [32]byte{}
			fail := func(entry string, p any, stack []byte) error {
				return stats.Failf("C10/validate-panic/"+entry, "%s panicked on a mutated block (%s) at height %d: %v\n%s", entry, st.Label, cs.Index.Height+1, p, stack)
			}
			if p, stk := stats.NoPanic(func() { id = b.ID() }); p != nil {
				return fail("Block.ID", p, stk)
			}
			var orphanErr, blockErr, headerErr error
			if p, stk := stats.NoPanic(func() { orphanErr = consensus.ValidateOrphan(cs, b) }); p != nil {
				return fail("ValidateOrphan", p, stk)
			}
			if p, stk := stats.NoPanic(func() { headerErr = consensus.ValidateHeader(cs, b.Header()) }); p != nil {
				return fail("ValidateHeader", p, stk)
			}
			for i := range b.V2Transactions() {
				txn := b.V2.Transactions[i]
				if p, stk := stats.NoPanic(func() { _ = cs.Elements.ValidateTransactionElements(txn) }); p != nil {
					return fail("ValidateTransactionElements", p, stk)
				}
			}
			if p, stk := stats.NoPanic(func() { blockErr = consensus.ValidateBlock(cs, b, bs) }); p != nil {
				return fail("ValidateBlock", p, stk)
			}
			// transaction-level entry points against a MidState: supplements are store-genuine only if the
			// supplement check passed, which ValidateBlock tells through its error
			stage := "orphan"
			switch {
			case blockErr == nil:
				stage = "accepted"
			case orphanErr != nil:
			case len(blockErr.Error()) > 27 && blockErr.Error()[:27] == "block supplement is invalid":
				stage = "supplement"
			case blockErr == consensus.ErrCommitmentMismatch:
				stage = "commitment"
			default:
				stage = "transactions"
			}
			if stage == "accepted" || stage == "transactions" {
				var foldErr error
				if p, stk := stats.NoPanic(func() {
					ms := consensus.NewMidState(cs)
					for i, txn := range b.Transactions {
						if foldErr = consensus.ValidateTransaction(ms, txn, bs.Transactions[i]); foldErr != nil {
							return
						}
						ms.ApplyTransaction(txn, bs.Transactions[i])
					}
					for _, txn := range b.V2Transactions() {
						if foldErr = consensus.ValidateV2Transaction(ms, txn); foldErr != nil {
							return
						}
						ms.ApplyV2Transaction(txn)
					}
				}); p != nil {
					return fail("ValidateTransaction/ValidateV2Transaction", p, stk)
				}
			}
			if stage == "accepted" {
				var serr error
				if p, stk := stats.NoPanic(func() { _, serr = sim.SoundApply(ch, b, bs, hasLegacyEphemeral(cs, b)) }); p != nil {
					return fail("ApplyBlock/RevertBlock after acceptance", p, stk)
				}
				if serr != nil {
					return stats.Failf("C10/accepted-unsound", "mutated block (%s) at height %d was accepted but: %v", st.Label, cs.Index.Height+1, serr)
				}
			}
			_ = headerErr
			nt := stage != "orphan"
			rec.Case(stats.FP(id[:], st.Label), nt, "validate-stage:"+stage)
			if nt && rec.WantSample() {
				rec.Sample(true, map[string]any{"mutation": st.Label, "stage": stage, "verdict": fmt.Sprint(blockErr)})
			}
			return nil
		},
	}
	if _, err := sim.Replay(c, hooks); err != nil {
		if _, ok := err.(*stats.Failure); ok {
			return err
		}
		return stats.Failf("C10/replay", "%v", err)
	}
	return nil
}

func TestValidate(t *testing.T)       { stats.Prop(t, drawValidate, checkValidate) }
func TestReplayValidate(t *testing.T) { stats.Replay(t, "TestValidate", checkValidate) }

// TestRegressValidate runs the committed regression histories (replays/C10/regress-*.json recorded by TestValidate).
func TestRegressValidate(t *testing.T) { stats.Regress(t, "TestValidate", checkValidate) }
