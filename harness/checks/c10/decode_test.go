// C10 (decoder half) — decoding arbitrary bytes as any wire object is total.
//
// For every entry of gen.Registry() (175 wire types of types, consensus, gateway through a real
// gateway.Stream, rhp/v2, rhp/v3, rhp/v4 through Read/WriteRequest/Response) valid encodings of
// generated values are mutated structure-aware (length prefixes / counts / enums / bools / indices
// overwritten with hostile constants and with values on the boundary of "bytes left", truncation,
// extension, splicing, flips, shifts) and fed to the library decoder.  Oracle per call (oracle_test.go):
// no panic, returns (CPU-time watchdog), allocates at most 1 MiB + 2048*len(input) (+ the size limit the
// library's own read function declares), and either reports an error or yields a value that the
// library re-encodes without panic.
//
// MUTANT TABLE (tools/with_mutant.sh -e <sed> <file> -- ./run C10 quick; seconds = wall time of the
// whole sharded run on a machine loaded (load average 60-120) by other builders; the first
// counterexample of a shard usually appears within its first few hundred cases)
//
//	M01 Decoder.ReadBytes: "n > bytes left" check removed ...................... killed  35 s  (TestDecode: 16 MiB for 32 bytes / makeslice panic)
//	M02 DecodeSlice: check removed and capacity n pre-allocated ................. killed  33 s  (TestDecode: allocation over budget)
//	M03 V1Currency.DecodeFrom: "n > 16" check removed ........................... killed  43 s  (TestDecode: slice bounds panic)
//	M04 SpendPolicy.DecodeFrom: maxPolicyDepth check removed .................... killed  52 s  (TestDeep: child dies of stack overflow at depth 2^20)
//	M05 types.unmarshalHex: over-long input check removed ....................... killed  38 s  (TestText: hex.Decode index panic; TestKnown F6 probe)
//	M06 rhp4 RPCFreeSectorsRequest: make([]uint64, d.ReadUint64()) .............. killed  51 s  (TestDecode: makeslice panic)
//	M07 multiproof decode: "leaf index >= numLeaves" check removed .............. killed  60 s  (TestDecode: makeslice panic)
//	M08 multiproof decode: bail-out on error before expandMultiproof removed .... killed  47 s  (TestDecode, proof-carrying seed: index [65] of [64]
//	    trees) — survived the first version of the generator (58 s, green): mutating the library's own encodings never shows the decoder
//	    elements that arrive WITH proofs; multiproof_seed_test.go now lays that wire form out by hand
//	M09 gateway outline decode: kinds/count cross-check removed ................. killed  59 s  (TestDecode: slice bounds panic)
//	M10 threshold policy: child count read as uint64 ............................ killed  29 s  (TestDecode: makeslice panic)
//	M11 Decoder.Read keeps looping after an error (hang) ........................ killed 128 s  (CPU-time watchdog, run with VERIF_C10_HANG_CPU_S=20;
//	    with the default 120 s budget the kill takes ~4 min)
//	M12 V2FileContractResolution.DecodeFrom: unknown-type branch removed ........ killed  31 s  (TestDecode: nil interface conversion panic)
//	M13 ElementAccumulator.UnmarshalJSON: tree count check != -> > .............. killed  29 s  (TestText: index panic)
//	M14 StorageProof.UnmarshalJSON: leaf length check removed ................... killed  38 s  (TestText: hex.Decode index panic)
//	M15 Address.UnmarshalText: length check removed ............................. killed  28 s  (TestText: hex.Decode index panic)
//	M16 rhp2 RPCReadResponse: SectorSize bound removed (fix 85d8f3f reverted) ... killed  44 s  (TestKnown probe + TestDecode: slice bounds panic)
//	M17 ApplyUpdate.UnmarshalJSON: height bound removed (fix c4ecb27 reverted) .. killed 110 s  (TestKnown probe + TestText)
//	M18 ParseCurrency: exponent bound 3 -> 9 digits (fix b289292 weakened) ...... killed 124 s  (TestKnown probe + TestText: 2.2 GB for 15 bytes)
//
// Not mutated because the change does not violate the property: dropping the length check of DecodeSlice/DecodeSliceFn alone
// (elements are appended one by one and the loop stops at the first error, so a hostile count costs nothing), > vs >= in
// the "bytes left" comparisons (over-rejects an exact fit; C11's subject).
package c10

import (
	"encoding/hex"
	"encoding/json"
	"fmt"
	"os"
	"reflect"
	"strings"
	"testing"

	rhp2 "go.sia.tech/core/rhp/v2"
	"pgregory.net/rapid"
	"verif/harness/gen"
	"verif/harness/stats"
)

// DecodeCase is one input for one registry decoder.
type DecodeCase struct {
	Entry string          `json:"entry"`
	Input string          `json:"input"`          // hex
	Hint  json.RawMessage `json:"hint,omitempty"` // gen.DumpJSON of the requester's object (gateway responses only)
	Ops   []string        `json:"ops,omitempty"`  // how the input was derived from a valid encoding (informational)

	hint reflect.Value
}

func genOpts() gen.Opts {
	o := gen.Opts{}
	if stats.Thorough() {
		o.Fuel = 60
		o.BigLen = 24
	}
	return o
}

// uniform draws an index in [0, n) from fair coin flips (rapid's integer generators
// favour small values, which would starve most registry entries).
func uniform(t *rapid.T, n int) int {
	x := 0
	for try := 0; try < 6; try++ {
		x = 0
		for b := 1; b < n; b <<= 1 {
			x <<= 1
			if rapid.Bool().Draw(t, "u") {
				x |= 1
			}
		}
		if x < n {
			return x
		}
	}
	return x % n
}

// needsHint: gateway responses are read into the object that holds the request,
// whose fields set the size limit.
func needsHint(e *gen.Entry) bool {
	return e.Pkg == "gateway" && strings.HasSuffix(e.Name, "#response")
}

// seedEncoding generates a value of e and encodes it through the library.
// ok is false when the encoder refuses or panics (C11's subject, not C10's).
func seedEncoding(t *rapid.T, e *gen.Entry) (enc []byte, v reflect.Value, ok bool) {
	v = gen.Value(t, e.Type, genOpts())
	var err error
	if p, _ := stats.NoPanic(func() { enc, err = e.Encode(v) }); p != nil || err != nil {
		return nil, v, false
	}
	return enc, v, true
}

func drawDecode(t *rapid.T) DecodeCase {
	reg := gen.Registry()
	if only := stats.EnvInt("C10_ONLY", -1); only >= 0 && only < len(reg) {
		reg = reg[only : only+1]
	}
	e := reg[uniform(t, len(reg))]
	if name := os.Getenv("C10_ONLY_NAME"); name != "" && gen.Lookup(name) != nil {
		e = gen.Lookup(name) // development aid: concentrate on one entry
	}
	enc, v, ok := seedEncoding(t, e)
	if !ok {
		enc = nil
	}
	m := &mut{t: t}
	if e.Multiproof && e.Pkg == "types" && m.intn(3, "special") == 0 {
		if sp, ok := specialSeed(t, e); ok {
			enc = sp
			m.note("proof-carrying-seed")
		}
	}
	other := func() []byte {
		o := e
		if m.intn(3, "otherEntry") == 0 {
			o = reg[uniform(t, len(reg))]
		}
		b, _, _ := seedEncoding(t, o)
		return b
	}
	in := m.mutateBytes(enc, other)
	c := DecodeCase{Entry: e.Name, Input: hex.EncodeToString(in), Ops: m.ops}
	if needsHint(e) {
		c.hint = v
	}
	return c
}

func (c DecodeCase) MarshalJSON() ([]byte, error) {
	type plain struct {
		Entry string          `json:"entry"`
		Input string          `json:"input"`
		Hint  json.RawMessage `json:"hint,omitempty"`
		Ops   []string        `json:"ops,omitempty"`
	}
	p := plain{c.Entry, c.Input, c.Hint, c.Ops}
	if p.Hint == nil && c.hint.IsValid() {
		p.Hint = gen.DumpJSON(c.hint)
	}
	return json.Marshal(p)
}

func (c *DecodeCase) UnmarshalJSON(b []byte) error {
	type plain struct {
		Entry string          `json:"entry"`
		Input string          `json:"input"`
		Hint  json.RawMessage `json:"hint,omitempty"`
		Ops   []string        `json:"ops,omitempty"`
	}
	var p plain
	if err := json.Unmarshal(b, &p); err != nil {
		return err
	}
	*c = DecodeCase{Entry: p.Entry, Input: p.Input, Hint: p.Hint, Ops: p.Ops}
	return nil
}

// limitSlack is the size limit that the library's own read function declares for this
// object (rhp4 ReadRequest/ReadResponse, gateway Stream.ReadRequest/ReadResponse):
// a receiver that announces "at most N bytes" may allocate up to N before the bytes arrive
// (types.Decoder checks prefixes against N), which is by design and bounded by N.
// Twice that limit is added to the budget and such cases are labelled. 0 for plain DecodeFrom.
func limitSlack(e *gen.Entry, hint reflect.Value) uint64 {
	if e.Name == "rhp2.RPCReadResponse" {
		// since fix 85d8f3f the decoder rejects data lengths above rhp2.SectorSize and
		// allocates (or reuses) a buffer of the announced length below it: a
		// protocol-declared bound of the same kind
		return rhp2.SectorSize
	}
	h := hint
	if !h.IsValid() {
		h = reflect.Zero(e.Type)
	}
	lim, bounded := e.LimitFor(h)
	if !bounded || lim <= 0 {
		return 0
	}
	// twice: ReadString materialises the bytes and then copies them into a string (e.g. the
	// description of an rhp4 RPCError, which may take up the whole limit of the response it replaces)
	return 2 * uint64(min(lim, 64<<20))
}

func errClass(err error) string {
	if err == nil {
		return "ok"
	}
	s := err.Error()
	for _, k := range []struct{ sub, class string }{
		{"invalid length prefix", "err:length-prefix"},
		{"EOF", "err:eof"},
		{"invalid bool", "err:bool"},
		{"Currency too large", "err:currency"},
		{"overflows", "err:overflow"},
		{"nesting depth", "err:policy-depth"},
		{"unknown policy", "err:policy-op"},
		{"unsupported policy version", "err:policy-version"},
		{"unsupported transaction version", "err:txn-version"},
		{"unknown resolution", "err:resolution-type"},
		{"invalid leaf index", "err:leaf-index"},
		{"outline", "err:outline"},
		{"unrecognized instruction", "err:instruction"},
		{"signature algorithm", "err:algorithm"},
		{"zero-length message", "err:harness-empty-gateway-message"},
	} {
		if strings.Contains(s, k.sub) {
			return k.class
		}
	}
	return "err:other"
}

// checkDecode is the pure checker for one decoder input.
func checkDecode(c DecodeCase) error { return checkDecodeAs("TestDecode", c) }

func checkDecodeAs(test string, c DecodeCase) error {
	rec := stats.G()
	e := gen.Lookup(c.Entry)
	if e == nil {
		return stats.Failf("", "harness: unknown registry entry %q", c.Entry)
	}
	in, err := hex.DecodeString(c.Input)
	if err != nil {
		return stats.Failf("", "harness: bad hex input: %v", err)
	}
	hint := c.hint
	if !hint.IsValid() && c.Hint != nil {
		if hint, err = gen.LoadJSON(e.Type, c.Hint); err != nil {
			return stats.Failf("", "harness: hint does not load: %v", err)
		}
	}
	fp := stats.FP("decode", e.Name, in)

	if k := preClassBinary(e.Name, in); k != "" && stats.KnownOpen(k) {
		rec.Excluded(k)
		rec.Case(fp, false, "excluded-known-class")
		return nil
	}

	slack := limitSlack(e, hint)
	journalCase(test, c)
	var d gen.Decoded
	r := guarded(test, len(in), slack, func() { d = e.Decode(in, hint) })
	what := fmt.Sprintf("%s decoding %d bytes [%s]", e.Name, len(in), strings.Join(c.Ops, " "))
	if k := classifyPanic(r); k != "" && stats.KnownOpen(k) {
		rec.Excluded(k)
		rec.Case(fp, false, "excluded-known-class")
		return nil
	} else if k != "" {
		return r.verdict(k, what, len(in), slack)
	}
	failKey := "C10/decode/" + e.Name
	if k := preClassBinary(e.Name, in); k != "" {
		failKey = k // the class of a defect that is supposed to be fixed
	}
	if err := r.verdict(failKey, what, len(in), slack); err != nil {
		return err
	}
	labels := []string{"pkg:" + e.Pkg, errClass(d.Err), allocClass(r.Alloc, len(in))}
	if r.Alloc > allocBudget(len(in), 0) {
		labels = append(labels, "alloc-within-declared-limit-only")
	}
	if r.Remeasured {
		labels = append(labels, "remeasured")
	}

	// a decoder that reports success must have produced a value the library can encode again
	if d.Err == nil && d.V.IsValid() {
		journalCase(test, c)
		var encErr error
		var out []byte
		r2 := guarded(test, len(in), slack+uint64(len(in))*allocPerByte, func() { out, encErr = e.Encode(d.V) })
		if r2.Panic != nil {
			return stats.Failf("C10/reencode/"+e.Name, "%s: decoded without error, but re-encoding the value panics: %v\n%s", what, r2.Panic, r2.Stack)
		}
		// a later (hostile) message decoded into the same variable must not reach into this accepted one: the
		// second message is this input with one bit of every byte of its second half flipped (same shape, other content)
		if len(in) >= 16 && !needsHint(e) {
			in2 := append([]byte(nil), in...)
			for i := len(in2) / 2; i < len(in2); i++ {
				in2[i] ^= 0x04
			}
			if herr := gen.ReuseReceiver(e, in, in2); herr != nil {
				return stats.Failf("C10/receiver-reuse/"+e.Name, "%s: %v", what, herr)
			}
		}
		switch {
		case encErr != nil:
			labels = append(labels, "reencode:error")
		case string(out) == string(in):
			labels = append(labels, "reencode:identical")
		default:
			labels = append(labels, "reencode:differs") // trailing bytes, non-canonical input, multiproof recomputation
		}
	}

	// non-trivial: the decoder got past the first structural check
	nt := d.Err == nil || (d.Consumed >= 0 && 2*d.Consumed >= len(in) && len(in) > 0)
	if len(c.Ops) == 0 {
		labels = append(labels, "unmutated")
	}
	for _, op := range c.Ops {
		labels = append(labels, "op:"+strings.FieldsFunc(op, func(r rune) bool { return r == '@' || r == '=' || r == '+' || r == ' ' || r == '*' })[0])
	}
	rec.Case(fp, nt, labels...)
	if rec.WantSample() {
		rec.Sample(nt, map[string]any{"entry": e.Name, "input": hx(in), "ops": c.Ops, "err": fmt.Sprint(d.Err), "consumed": d.Consumed, "alloc": r.Alloc})
	}
	return nil
}

func hx(b []byte) string {
	if len(b) > 96 {
		return hex.EncodeToString(b[:96]) + fmt.Sprintf("...(%d bytes)", len(b))
	}
	return hex.EncodeToString(b)
}

// TestDecode: rapid-generated mutated encodings for every registry decoder.
func TestDecode(t *testing.T) { stats.Prop(t, drawDecode, checkDecode) }

// TestReplayDecode feeds a saved case to the checker.
func TestReplayDecode(t *testing.T) { stats.Replay(t, "TestDecode", checkDecode) }

// TestRegressDecode runs the committed regression inputs (replays/C10/regress-*.json).
func TestRegressDecode(t *testing.T) { stats.Regress(t, "TestDecode", checkDecode) }

func hexEncode(b []byte) string          { return hex.EncodeToString(b) }
func hexDecode(s string) ([]byte, error) { return hex.DecodeString(s) }
