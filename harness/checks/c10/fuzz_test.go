package c10

import (
	"bytes"
	"encoding/binary"
	"encoding/json"
	"fmt"
	"os"
	"path/filepath"
	"reflect"
	"strconv"
	"strings"
	"sync"
	"testing"

	"pgregory.net/rapid"
	"verif/harness/gen"
	"verif/harness/stats"
)

// Native, coverage-guided fuzz targets (thorough tier).
//
//	FuzzDecode  data = 2-byte little-endian selector (mod 175 registry entries) ++ input of that decoder
//	FuzzText    data = 2-byte little-endian selector (mod number of text entries) ++ text
//
// Both run the same pure checkers as TestDecode / TestText (same oracle, same known-class
// exclusions).  Their seed corpus is built in code (f.Add): valid encodings of generated values,
// the same encodings with each of their first length-prefix candidates overwritten by every hostile
// constant, and bare runs of hostile constants.  Plain `go test -run 'FuzzDecode|FuzzText'` executes
// exactly that corpus (plus anything under testdata/fuzz) as ordinary tests, which is what the
// quick tier does; TestFuzzSeeds is the same corpus as a sharded unit with replay support.
//
// By hand:   cd /verif/harness && GOFLAGS=-mod=mod GOPROXY=off \
//            go test -tags verif -run '^$' -fuzz '^FuzzDecode$' -fuzztime 60s ./checks/c10
// or, without touching the package directory (crashers land in ./testdata/fuzz/<Target>/ of the cwd):
//            c10.test -test.run '^$' -test.fuzz '^FuzzDecode$' -test.fuzztime 60s -test.fuzzcachedir $PWD/cache

// FuzzCase is the replay form of one native-fuzz input.
type FuzzCase struct {
	Target string `json:"target"` // FuzzDecode | FuzzText
	Data   string `json:"data"`   // hex of the raw fuzz input (selector ++ payload)
}

// fuzzHint is the fixed requester-side object for gateway responses under native fuzzing.
func fuzzHint(e *gen.Entry) reflect.Value {
	v := reflect.New(e.Type).Elem()
	if f := v.FieldByName("Max"); f.IsValid() && f.CanSet() && f.Kind() == reflect.Uint64 {
		f.SetUint(1) // RPCSendHeaders: up to 1 header; RPCSendV2Blocks: up to 5 MB
	}
	return v
}

func fuzzSelect(data []byte, n int) (int, []byte, bool) {
	if len(data) < 2 {
		return 0, nil, false
	}
	return int(binary.LittleEndian.Uint16(data)) % n, data[2:], true
}

func checkFuzz(c FuzzCase) error {
	data, err := hexDecode(c.Data)
	if err != nil {
		return stats.Failf("", "harness: bad hex: %v", err)
	}
	switch c.Target {
	case "FuzzDecode":
		reg := gen.Registry()
		i, in, ok := fuzzSelect(data, len(reg))
		if !ok {
			return nil
		}
		dc := DecodeCase{Entry: reg[i].Name, Input: hexEncode(in), Ops: []string{"fuzz"}}
		if needsHint(reg[i]) {
			dc.hint = fuzzHint(reg[i])
		}
		return checkDecodeAs(c.Target, dc)
	case "FuzzText":
		all := allTextEntries()
		i, in, ok := fuzzSelect(data, len(all))
		if !ok {
			return nil
		}
		return checkTextAs(c.Target, newTextCase(all[i].Name, in, false, []string{"fuzz"}))
	}
	return stats.Failf("", "harness: unknown fuzz target %q", c.Target)
}

func sel(i int, payload []byte) []byte {
	return append(binary.LittleEndian.AppendUint16(nil, uint16(i)), payload...)
}

// example draws one deterministic value from a rapid generator body.
func example[T any](seed int, f func(t *rapid.T) T) (v T, ok bool) {
	if p, _ := stats.NoPanic(func() { v = rapid.Custom(f).Example(seed) }); p != nil {
		return v, false
	}
	return v, true
}

var (
	seedOnce                     sync.Once
	decodeSeedCorpus, textCorpus [][]byte
)

func seedsPerEntry() int { return stats.EnvInt("C10_FUZZ_SEEDS", 2) }

func buildCorpora() {
	seedOnce.Do(func() {
		// binary decoders
		for i, e := range gen.Registry() {
			var encs [][]byte
			if b, err := func() (b []byte, err error) {
				defer func() {
					if recover() != nil {
						err = fmt.Errorf("panic")
					}
				}()
				return e.Encode(gen.Minimal(e.Type))
			}(); err == nil {
				encs = append(encs, b)
			}
			for s := 1; s <= seedsPerEntry(); s++ {
				if b, ok := example(s, func(t *rapid.T) []byte { enc, _, _ := seedEncoding(t, e); return enc }); ok && b != nil {
					encs = append(encs, b)
				}
			}
			for _, b := range encs {
				decodeSeedCorpus = append(decodeSeedCorpus, sel(i, b))
			}
			// every hostile constant over each of the first prefix candidates of the richest valid encoding
			if len(encs) > 0 {
				base := encs[len(encs)-1]
				cands := prefixCandidates(base)
				if len(cands) > 3 {
					cands = []int{cands[0], cands[len(cands)/2], cands[len(cands)-1]}
				}
				for _, o := range cands {
					for _, h := range hostile {
						b := clone(base)
						binary.LittleEndian.PutUint64(b[o:], h)
						decodeSeedCorpus = append(decodeSeedCorpus, sel(i, b))
					}
				}
			}
			for _, h := range hostile {
				decodeSeedCorpus = append(decodeSeedCorpus, sel(i, binary.LittleEndian.AppendUint64(nil, h)))
			}
			decodeSeedCorpus = append(decodeSeedCorpus, sel(i, nil), sel(i, bytes.Repeat([]byte{0xff}, 64)), sel(i, make([]byte, 256)))
		}
		// text side
		hostileText := []string{"", "null", "{}", "[]", `""`, "0", "-1", "1e400", "18446744073709551616",
			"ed25519:" + strings.Repeat("ab", 33), "5::" + strings.Repeat("ab", 33), strings.Repeat("ab", 33), strings.Repeat("f", 77),
			"1e1000000SC", "0x1p10000000SC", strings.Repeat("9", 40), strings.Repeat("9", 40) + " SC", "340282366920938463463374607431768211456",
			strings.Repeat("[", 10001), strings.Repeat(`{"a":`, 10001), strings.Repeat("thresh(1,[", 40), "uc(0,[],300)", `{"updatedLeaves":{"64":[]}}`, `{"treeGrowth":{"-1":[]}}`,
			`{"type":"thresh","policy":{"n":1,"of":[null]}}`, "v256.0.0", "v1.2"}
		for i, e := range allTextEntries() {
			for s := 1; s <= seedsPerEntry(); s++ {
				if b, ok := example(s, e.Seed); ok {
					textCorpus = append(textCorpus, sel(i, b))
				}
			}
			for _, h := range hostileText {
				textCorpus = append(textCorpus, sel(i, []byte(h)))
			}
		}
	})
}

func fuzzBody(target string) func(t *testing.T, data []byte) {
	return func(t *testing.T, data []byte) {
		c := FuzzCase{Target: target, Data: hexEncode(data)}
		if err := stats.Safe("", func() error { return checkFuzz(c) }); err != nil {
			stats.WriteReplay(target, c, err)
			t.Fatalf("%v", err)
		}
	}
}

func FuzzDecode(f *testing.F) {
	buildCorpora()
	for _, s := range decodeSeedCorpus {
		f.Add(s)
	}
	f.Fuzz(fuzzBody("FuzzDecode"))
}

func FuzzText(f *testing.F) {
	buildCorpora()
	for _, s := range textCorpus {
		f.Add(s)
	}
	f.Fuzz(fuzzBody("FuzzText"))
}

// TestFuzzSeeds runs the seed corpus of both targets as a sharded plain unit.
func TestFuzzSeeds(t *testing.T) {
	buildCorpora()
	idx, n := stats.Shard()
	k := 0
	for _, part := range []struct {
		target string
		corpus [][]byte
	}{{"FuzzDecode", decodeSeedCorpus}, {"FuzzText", textCorpus}} {
		for _, s := range part.corpus {
			if k++; k%n != idx {
				continue
			}
			stats.Check(t, FuzzCase{Target: part.target, Data: hexEncode(s)}, checkFuzz)
		}
	}
	if idx == 0 {
		stats.G().Extra("fuzz-seed-corpus-decode", uint64(len(decodeSeedCorpus)))
		stats.G().Extra("fuzz-seed-corpus-text", uint64(len(textCorpus)))
	}
}

// parseGoFuzzFile reads a corpus / crasher file in Go's native fuzz format
// ("go test fuzz v1\n[]byte(\"...\")\n").
func parseGoFuzzFile(b []byte) ([]byte, bool) {
	lines := strings.Split(strings.TrimSpace(string(b)), "\n")
	if len(lines) < 2 || !strings.HasPrefix(lines[0], "go test fuzz v1") {
		return nil, false
	}
	l := strings.TrimSpace(lines[1])
	if !strings.HasPrefix(l, "[]byte(") || !strings.HasSuffix(l, ")") {
		return nil, false
	}
	s, err := strconv.Unquote(l[len("[]byte(") : len(l)-1])
	if err != nil {
		return nil, false
	}
	return []byte(s), true
}

// TestReplayFuzz accepts (a) a JSON replay written by a fuzz target or TestFuzzSeeds and
// (b) a native Go fuzz crasher file; for (b) the target is taken from the file's directory
// or name (…/FuzzDecode/<hash>, fuzz-FuzzText-<hash>), both targets are tried otherwise.
func TestReplayFuzz(t *testing.T) {
	path := os.Getenv("VERIF_REPLAY")
	if path == "" {
		t.Skip("no VERIF_REPLAY")
	}
	raw, err := os.ReadFile(path)
	if err != nil {
		t.Fatalf("replay file: %v", err)
	}
	if data, ok := parseGoFuzzFile(raw); ok {
		targets := []string{"FuzzDecode", "FuzzText"}
		for _, tg := range targets {
			if strings.Contains(path, tg) {
				targets = []string{tg}
			}
		}
		for _, tg := range targets {
			if err := stats.Safe("", func() error { return checkFuzz(FuzzCase{Target: tg, Data: hexEncode(data)}) }); err != nil {
				t.Fatalf("REPLAY-FAIL (%s, %s) %v", tg, filepath.Base(path), err)
			}
		}
		return
	}
	var rf struct {
		Test string `json:"test"`
	}
	if json.Unmarshal(raw, &rf) != nil || (rf.Test != "FuzzDecode" && rf.Test != "FuzzText" && rf.Test != "TestFuzzSeeds") {
		t.Skipf("replay is for %s", rf.Test)
	}
	stats.Replay(t, rf.Test, checkFuzz)
}
