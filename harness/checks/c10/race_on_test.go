//go:build race

package c10

// The race detector reserves terabytes of address space: no RLIMIT_AS under -race.
const raceEnabled = true
