// C10 — untrusted input can never crash a node: decoding and validation are total.
//
// Package layout (one TestMain for the whole package; add further units in new files):
//
//	main_test.go    TestMain: process-wide protections (address-space limit, GC memory limit,
//	                maximum stack), journal and CPU-time hang watchdog
//	oracle_test.go  the totality oracle: guarded(call) = journal the input, run it on the
//	                test goroutine, recover panics, measure the TotalAlloc delta (re-measured once)
//	mutate_test.go  hostile constants and the structure-aware mutation operators (bytes, text, JSON)
//	decode_test.go  TestDecode: every binary decoder of gen.Registry()
//	text_test.go    TestText: every UnmarshalText / UnmarshalJSON / Parse* entry point
//	multiproof_seed_test.go  hand-laid-out wire form "transactions that arrive with proofs + hostile numLeaves"
//	deep_test.go    TestDeep: deeply nested policies (binary / text / JSON), each case in a child process
//	fuzz_test.go    FuzzDecode / FuzzText native fuzz targets + their seed corpus as a plain unit
//	known_test.go   TestKnown: probes of the defects found on the pinned tree + exclusion classes
//
// The mutant table is at the top of decode_test.go.
//
// Adding units (e.g. the validation half): write the Case type, draw and checker in a new
// *_test.go file; inside the checker call journalCase(test, c) and then
// r := guarded(test, inputLen, slack, func() { ...library call... }) and return
// r.verdict(key, what, inputLen, slack) — that gives the unit the journal, the panic
// recovery with stack, the allocation budget (pass a large slack where allocation is not the
// point) and the hang watchdog; classifyPanic(r) maps a panic to a known-finding key. Then list
// the test in check.json. This process runs with GOMAXPROCS=1 (see TestMain).
package c10

import (
	"fmt"
	"os"
	"path/filepath"
	"runtime"
	"runtime/debug"
	"strings"
	"sync/atomic"
	"syscall"
	"testing"
	"time"

	"verif/harness/stats"
)

// Process-wide limits. A hostile length prefix that slips past an exclusion must kill
// this worker (Go fatal error "out of memory", identified through the journal), never the
// machine: the address space of every C10 test process is capped.
const (
	defaultASLimitMB  = 4096 // RLIMIT_AS
	defaultGCLimitMB  = 2048 // debug.SetMemoryLimit (soft; makes the GC return memory early)
	defaultMaxStackMB = 64   // debug.SetMaxStack: runaway recursion dies after 64 MiB, not 1 GB (honest calls need < 10 MiB)
	defaultHangCPUSec = 120  // CPU seconds one single guarded call may burn before it is reported as a hang
)

func isFuzzWorker() bool {
	for _, a := range os.Args {
		if strings.HasPrefix(a, "-test.fuzzworker") {
			return true
		}
	}
	return false
}

func isFuzzCoordinator() bool {
	if isFuzzWorker() {
		return false
	}
	for _, a := range os.Args {
		if strings.HasPrefix(a, "-test.fuzz=") || a == "-test.fuzz" {
			return true
		}
	}
	return false
}

func TestMain(m *testing.M) {
	// (not for the native-fuzz coordinator: it maps a shared-memory window per worker and runs no input itself)
	if mb := stats.EnvInt("VERIF_C10_ASLIMIT_MB", defaultASLimitMB); mb > 0 && !raceEnabled && !isFuzzCoordinator() {
		lim := syscall.Rlimit{Cur: uint64(mb) << 20, Max: uint64(mb) << 20}
		if err := syscall.Setrlimit(syscall.RLIMIT_AS, &lim); err != nil {
			fmt.Fprintf(os.Stderr, "c10: cannot set RLIMIT_AS: %v (continuing without)\n", err)
		}
	}
	// One P: runtime.ReadMemStats stops the world, which costs ~1 ms of wall clock per call on a
	// 16-P process and ~10 us on a 1-P process (the driver shards by processes anyway); it also
	// keeps the allocation measurement free of concurrent allocators.
	runtime.GOMAXPROCS(max(1, stats.EnvInt("VERIF_C10_PROCS", 1)))
	debug.SetMemoryLimit(int64(stats.EnvInt("VERIF_C10_GCLIMIT_MB", defaultGCLimitMB)) << 20)
	debug.SetMaxStack(stats.EnvInt("VERIF_C10_MAXSTACK_MB", defaultMaxStackMB) << 20)
	if isFuzzWorker() {
		// native fuzz workers are separate processes: they must not clobber the
		// coordinator's stats file; a dying worker is recorded by the fuzz coordinator itself
		os.Unsetenv("VERIF_STATS")
	}
	openJournal()
	go watchdog(time.Duration(stats.EnvInt("VERIF_C10_HANG_CPU_S", defaultHangCPUSec)) * time.Second)
	stats.Main(m)
}

// ---------------------------------------------------------------------------
// Journal.  Before a guarded call runs, the case is written (in the replay-file
// format of stats.WriteReplay) to journal.json in the shard's working directory.
// If the process then dies with a Go fatal error (out of memory, stack overflow —
// neither can be recovered), the driver's log shows the fatal error and the
// journal holds the input that was executing: `./run replay C10 journal.json`
// reproduces it.  The file is truncated when the call returns, so a journal with
// content always names a call that did not return.
// ---------------------------------------------------------------------------

var journal struct {
	f    *os.File
	path string
}

func openJournal() {
	p := os.Getenv("VERIF_JOURNAL")
	if p == "" {
		if out := os.Getenv("VERIF_REPLAY_OUT"); out != "" {
			p = filepath.Join(filepath.Dir(out), "journal.json")
		}
	}
	if p == "" {
		return // run by hand without the driver: no journal unless VERIF_JOURNAL names one
	}
	if isFuzzWorker() {
		p += fmt.Sprintf(".%d", os.Getpid())
	}
	f, err := os.OpenFile(p, os.O_CREATE|os.O_RDWR|os.O_TRUNC, 0o644)
	if err != nil {
		fmt.Fprintf(os.Stderr, "c10: cannot open journal %s: %v\n", p, err)
		return
	}
	journal.f, journal.path = f, p
}

func journalWrite(b []byte) {
	if journal.f == nil {
		return
	}
	journal.f.Truncate(0)
	journal.f.WriteAt(b, 0)
}

func journalClear() {
	if journal.f != nil {
		journal.f.Truncate(0)
	}
}

// ---------------------------------------------------------------------------
// Hang watchdog.  A decoder that spins cannot be interrupted from inside the test
// goroutine.  The watchdog never looks at the wall clock to judge a call: it
// samples the CPU time consumed by this process (getrusage) and fires only when one
// single guarded call has burned more than the limit (default 120 CPU-seconds; the
// most expensive honest call takes milliseconds).  A loaded or suspended machine does
// not advance CPU time, so this cannot fire spuriously.  When it fires it stores
// the journaled case as the replay, prints all stacks and fails the process the
// way a failing test does.
// ---------------------------------------------------------------------------

var (
	callSeq  atomic.Uint64 // odd while a guarded call is running
	callTest atomic.Value  // name of the test that owns the running call (string)
)

func cpuTime() time.Duration {
	var ru syscall.Rusage
	if syscall.Getrusage(syscall.RUSAGE_SELF, &ru) != nil {
		return 0
	}
	return time.Duration(ru.Utime.Nano() + ru.Stime.Nano())
}

func watchdog(limit time.Duration) {
	if limit <= 0 {
		return
	}
	var seen uint64
	var since time.Duration
	for range time.Tick(2 * time.Second) {
		s := callSeq.Load()
		if s&1 == 0 {
			seen = 0
			continue
		}
		now := cpuTime()
		if s != seen {
			seen, since = s, now
			continue
		}
		if now-since < limit {
			continue
		}
		test, _ := callTest.Load().(string)
		fmt.Fprintf(os.Stderr, "C10 HANG: one guarded call has consumed %v of CPU and has not returned; journal: %s\n", now-since, journal.path)
		if journal.f != nil {
			if b, err := os.ReadFile(journal.path); err == nil && len(b) > 0 {
				if out := os.Getenv("VERIF_REPLAY_OUT"); out != "" {
					os.WriteFile(out, b, 0o644)
				}
			}
		}
		buf := make([]byte, 1<<20)
		os.Stderr.Write(buf[:runtime.Stack(buf, true)])
		fmt.Fprintf(os.Stderr, "\n--- FAIL: %s (C10 hang: call did not return within %v of CPU time)\nFAIL\n", test, limit)
		os.Exit(1)
	}
}
