package c10

import (
	"bytes"
	"reflect"

	"go.sia.tech/core/types"
	"pgregory.net/rapid"
	"verif/harness/gen"
	"verif/harness/stats"
)

// The library's multiproof encoder always writes empty per-element proofs, so mutating
// its output never shows the decoder a transaction list whose elements arrive WITH proofs
// (of any length, up to and beyond the 64 tree heights) next to a hostile leaf count — the
// situation the decoder's "leaf index < numLeaves" check and its bail-out before
// expandMultiproof exist for.  This seed writes that wire form directly: the plain slice
// encoding of generated transactions whose parent proofs were stretched, then a drawn
// numLeaves, then a drawn number of hashes.
func proofCarryingMultiproof(t *rapid.T) (enc []byte, ok bool) {
	var txns []types.V2Transaction
	if p, _ := stats.NoPanic(func() {
		txns = gen.Value(t, reflect.TypeOf([]types.V2Transaction{}), genOpts()).Interface().([]types.V2Transaction)
	}); p != nil {
		return nil, false
	}
	m := &mut{t: t}
	lens := []int{0, 0, 1, 2, 31, 62, 63, 64, 65, 70}
	var maxLeaf uint64
	stretch := func(se *types.StateElement) {
		switch m.intn(4, "leaf") {
		case 0:
			se.LeafIndex = hostile[m.intn(len(hostile), "hostile")]
		case 1:
			se.LeafIndex = uint64(m.intn(1<<16, "small"))
		}
		if se.LeafIndex != types.UnassignedLeafIndex && se.LeafIndex > maxLeaf {
			maxLeaf = se.LeafIndex
		}
		if m.intn(2, "stretch") == 0 {
			n := lens[m.intn(len(lens), "prooflen")]
			raw := m.fill(32 * n)
			se.MerkleProof = make([]types.Hash256, n)
			for i := range se.MerkleProof {
				copy(se.MerkleProof[i][:], raw[32*i:])
			}
		}
	}
	for i := range txns {
		txn := &txns[i]
		for j := range txn.SiacoinInputs {
			stretch(&txn.SiacoinInputs[j].Parent.StateElement)
		}
		for j := range txn.SiafundInputs {
			stretch(&txn.SiafundInputs[j].Parent.StateElement)
		}
		for j := range txn.FileContractRevisions {
			stretch(&txn.FileContractRevisions[j].Parent.StateElement)
		}
		for j := range txn.FileContractResolutions {
			stretch(&txn.FileContractResolutions[j].Parent.StateElement)
			if sp, isProof := txn.FileContractResolutions[j].Resolution.(*types.V2StorageProof); isProof && sp != nil {
				stretch(&sp.ProofIndex.StateElement)
			}
		}
	}
	var buf bytes.Buffer
	e := types.NewEncoder(&buf)
	if p, _ := stats.NoPanic(func() { types.EncodeSlice(e, txns) }); p != nil {
		return nil, false
	}
	var numLeaves uint64
	switch m.intn(5, "numLeaves") {
	case 0:
		numLeaves = hostile[m.intn(len(hostile), "hostile")]
	case 1:
		numLeaves = maxLeaf // one too small for the largest index
	case 2:
		numLeaves = maxLeaf + 1
	case 3:
		numLeaves = maxLeaf/2 + 1
	default:
		numLeaves = rapid.Uint64().Draw(t, "numLeaves")
	}
	e.WriteUint64(numLeaves)
	e.Write(m.fill(32 * m.intn(24, "hashes")))
	e.Flush()
	return buf.Bytes(), true
}

// specialSeed returns a hand-laid-out wire form for the entries that have one.
func specialSeed(t *rapid.T, e *gen.Entry) (enc []byte, ok bool) {
	switch e.Name {
	case "types.V2TransactionsMultiproof":
		return proofCarryingMultiproof(t)
	case "types.V2BlockData":
		mp, ok := proofCarryingMultiproof(t)
		if !ok {
			return nil, false
		}
		m := &mut{t: t}
		return append(m.fill(8+32), mp...), true // height, commitment
	}
	return nil, false
}
