package c10

import (
	"bytes"
	"encoding/binary"
	"encoding/json"
	"fmt"
	"strconv"
	"strings"
	"testing"

	"go.sia.tech/core/consensus"
	rhp2 "go.sia.tech/core/rhp/v2"
	rhp3 "go.sia.tech/core/rhp/v3"
	rhp4 "go.sia.tech/core/rhp/v4"
	"go.sia.tech/core/types"
	"verif/harness/stats"
)

// Defects of the pinned tree in the decoder half of C10 (DESIGN §7 F3–F7 plus the
// ones this check found).  While a key is listed as open in known_findings.json the
// generators drop exactly its input class (counted as excluded) and TestKnown reports
// it as KNOWN-FINDING; once fixed the class is generated again and the probe is a
// regression test.
const (
	keyF3 = "C10/rhp3-executeprogramrequest-unbounded-make"
	keyF4 = "C10/rhp3-executeprogramresponse-unbounded-make"
	keyF5 = "C10/rhp2-readresponse-unchecked-length"
	keyF6 = "C10/chainindex-unmarshaltext-overlong-hex"
	keyF7 = "C10/rhp4-account-unmarshaltext-overlong-hex"
	keyN1 = "C10/applyupdate-unmarshaljson-tree-height-index"
	keyN2 = "C10/revertupdate-unmarshaljson-tree-height-index"
	keyN3 = "C10/parsecurrency-rat-exponent-amplification"
	keyN4 = "C10/spendpolicy-unmarshaljson-unbounded-depth"
)

func le64(b []byte, o int) (uint64, bool) {
	if o < 0 || o+8 > len(b) {
		return 0, false
	}
	return binary.LittleEndian.Uint64(b[o:]), true
}

// preClassBinary decides BEFORE a binary input is executed whether it falls in the
// class of one of the unbounded-allocation defects (these cannot be tried and
// recovered: a 2^32 count would allocate tens of gigabytes).  The classes are
// stated on the wire bytes alone:
//
//	F3  rhp3.RPCExecuteProgramRequest: the instruction count (bytes 32..40) exceeds what the
//	    rest of the input could hold at 24 bytes per instruction (16-byte id + 8-byte length)
//	F4  rhp3.RPCExecuteProgramResponse: OutputLength (the 8 bytes after the first v1 currency)
//	    exceeds the length of the whole input
//	F5  rhp2.RPCReadResponse: the data length (the 8 bytes after the length-prefixed signature)
//	    exceeds the length of the whole input
func preClassBinary(entry string, in []byte) string {
	switch entry {
	case "rhp3.RPCExecuteProgramRequest":
		if n, ok := le64(in, 32); ok && n > uint64(len(in)-40)/24 {
			return keyF3
		}
	case "rhp3.RPCExecuteProgramResponse":
		if n0, ok := le64(in, 0); ok && n0 <= 16 {
			if n, ok := le64(in, 8+int(n0)); ok && n > uint64(len(in)) {
				return keyF4
			}
		}
	case "rhp2.RPCReadResponse":
		if n0, ok := le64(in, 0); ok && n0 <= uint64(len(in)-8) {
			if n, ok := le64(in, 8+int(n0)); ok && n > uint64(len(in)) {
				return keyF5
			}
		}
	}
	return ""
}

// stackClasses maps a frame of a recovered panic to the known defect it belongs to
// (panics are recoverable, so these classes are decided after the fact, exactly).
var stackClasses = []struct{ frame, needle, key string }{
	{"go.sia.tech/core/types.(*ChainIndex).UnmarshalText", "encoding/hex.Decode", keyF6},
	{"go.sia.tech/core/rhp/v4.(*Account).UnmarshalText", "encoding/hex.Decode", keyF7},
	{"go.sia.tech/core/consensus.(*ApplyUpdate).UnmarshalJSON", "index out of range", keyN1},
	{"go.sia.tech/core/consensus.(*RevertUpdate).UnmarshalJSON", "index out of range", keyN2},
}

// classifyPanic returns the known-defect key a recovered panic belongs to ("" if none).
func classifyPanic(r callResult) string {
	if r.Panic == nil {
		return ""
	}
	txt := fmt.Sprint(r.Panic) + "\n" + string(r.Stack)
	for _, c := range stackClasses {
		if strings.Contains(txt, c.frame) && strings.Contains(txt, c.needle) {
			return c.key
		}
	}
	return ""
}

// currencyAmplifier reports whether types.ParseCurrency(s) would hand an exponent of
// magnitude >= 1000 to big.Rat.SetString — the class of N3.  It restates how
// ParseCurrency splits number and unit and what Rat.SetString accepts as a float:
// [sign] mantissa (decimal / 0b / 0o digits with '.', '_'; or 0x hex digits) followed by
// e|E|p|P (hex mantissa: p|P only) [sign] digits.  A unit (anything but "" and "H")
// must follow, otherwise ParseCurrency never builds a Rat.
func currencyAmplifier(s string) bool {
	i := strings.LastIndexAny(s, "0123456789.") + 1
	if i == 0 {
		return false
	}
	n, unit := s[:i], strings.TrimSpace(s[i:])
	if unit == "" || unit == "H" {
		return false
	}
	if n[0] == '+' || n[0] == '-' {
		n = n[1:]
	}
	hexm := len(n) > 1 && n[0] == '0' && (n[1] == 'x' || n[1] == 'X')
	k := len(n) - 1
	for k >= 0 && (n[k] >= '0' && n[k] <= '9' || n[k] == '_') {
		k--
	}
	digits := n[k+1:]
	if k >= 0 && (n[k] == '+' || n[k] == '-') {
		k--
	}
	if k < 1 || digits == "" {
		return false
	}
	switch n[k] {
	case 'p', 'P':
	case 'e', 'E':
		if hexm {
			return false
		}
	default:
		return false
	}
	mant := n[:k]
	if len(mant) > 1 && mant[0] == '0' && strings.ContainsRune("xXbBoO", rune(mant[1])) {
		mant = mant[2:]
	}
	for _, c := range []byte(mant) {
		if !(c >= '0' && c <= '9' || c == '.' || c == '_' || hexm && isHex(c)) {
			return false
		}
	}
	mag, err := strconv.ParseUint(strings.ReplaceAll(digits, "_", ""), 10, 64)
	return err != nil || mag >= 1000
}

// n4Depth: the class of N4 is "JSON text that mentions thresh and nests brackets at least
// this deep" (a threshold policy level costs three bracket levels; the quadratic cost
// crosses the allocation budget at about 830 policy levels = 2500 bracket levels).
const n4Depth = 1500

// bracketDepth is the maximum nesting of [ and { outside strings.
func bracketDepth(s []byte) int {
	depth, deepest, inStr := 0, 0, false
	for i := 0; i < len(s); i++ {
		switch c := s[i]; {
		case inStr:
			if c == '\\' {
				i++
			} else if c == '"' {
				inStr = false
			}
		case c == '"':
			inStr = true
		case c == '[' || c == '{':
			if depth++; depth > deepest {
				deepest = depth
			}
		case c == ']' || c == '}':
			depth--
		}
	}
	return deepest
}

// preClassText: N3 is an amplification (an 11-byte string costs gigabytes of
// cumulative allocation and seconds of CPU; a few hundred of them in one JSON document
// would stall a worker), so its class is decided before execution: the text, or any
// JSON string inside it, is a currency amplifier.
func preClassText(in []byte) string {
	if currencyAmplifier(string(in)) {
		return keyN3
	}
	if bytes.Contains(in, []byte("thresh")) && bracketDepth(in) >= n4Depth {
		return keyN4
	}
	if bytes.IndexByte(in, '"') >= 0 {
		for _, t := range jsonTokens(in) {
			if t.kind == 's' && t.hi-t.lo >= 2 && currencyAmplifier(string(in[t.lo+1:t.hi-1])) {
				return keyN3
			}
		}
	}
	return ""
}

func encLE(vs ...uint64) []byte {
	var b []byte
	for _, v := range vs {
		b = binary.LittleEndian.AppendUint64(b, v)
	}
	return b
}

// probeAlloc fails if f panics or allocates more than the budget for an n-byte input.
func probeAlloc(what string, n int, f func()) error {
	callTest.Store("TestKnown")
	r := measure(f)
	return r.verdict("", what, n, 0)
}

// TestKnown reproduces each defect with its smallest input (a count of 2^62
// panics at once in makeslice; the allocation flavour uses 2^20..2^24 so that the probe
// itself never allocates more than 256 MiB).
func TestKnown(t *testing.T) {
	stats.ProbeKnown(t, keyF3, "rhp/v3 RPCExecuteProgramRequest.DecodeFrom: make([]Instruction, d.ReadUint64()) with an unchecked count: 40 bytes with count 2^62 panic (makeslice: len out of range), count 2^24 allocates 256 MiB", func() error {
		in := append(make([]byte, 32), encLE(1<<62)...)
		if err := probeAlloc("count 2^62", len(in), func() { new(rhp3.RPCExecuteProgramRequest).DecodeFrom(types.NewBufDecoder(in)) }); err != nil {
			return err
		}
		in = append(make([]byte, 32), encLE(1<<20)...)
		return probeAlloc("count 2^20", len(in), func() { new(rhp3.RPCExecuteProgramRequest).DecodeFrom(types.NewBufDecoder(in)) })
	})
	stats.ProbeKnown(t, keyF4, "rhp/v3 RPCExecuteProgramResponse.DecodeFrom: make([]byte, r.OutputLength) with an unchecked length: OutputLength 2^62 panics, 2^24 allocates 16 MiB for 80 bytes", func() error {
		mk := func(n uint64) []byte {
			b := encLE(0, n)                          // AdditionalCollateral (empty v1 currency), OutputLength
			b = append(b, make([]byte, 32)...)        // NewMerkleRoot
			return append(b, encLE(0, 0, 0, 0, 0)...) // NewSize, no proof, no error, TotalCost, FailureRefund
		}
		in := mk(1 << 62)
		if err := probeAlloc("OutputLength 2^62", len(in), func() { new(rhp3.RPCExecuteProgramResponse).DecodeFrom(types.NewBufDecoder(in)) }); err != nil {
			return err
		}
		in = mk(1 << 24)
		return probeAlloc("OutputLength 2^24", len(in), func() { new(rhp3.RPCExecuteProgramResponse).DecodeFrom(types.NewBufDecoder(in)) })
	})
	stats.ProbeKnown(t, keyF5, "rhp/v2 RPCReadResponse.DecodeFrom: int(d.ReadUint64()) used unchecked as a slice length: 2^63 panics (slice bounds out of range), 2^62 panics (makeslice), 2^24 allocates 16 MiB for 24 bytes", func() error {
		for _, n := range []uint64{1 << 63, 1 << 62, 1 << 24} {
			in := encLE(0, n, 0)
			if err := probeAlloc(fmt.Sprintf("data length %#x", n), len(in), func() { new(rhp2.RPCReadResponse).DecodeFrom(types.NewBufDecoder(in)) }); err != nil {
				return err
			}
		}
		return nil
	})
	stats.ProbeKnown(t, keyF6, "types.ChainIndex.UnmarshalText (and ParseChainIndex): hex.Decode into the 32-byte ID without a length check: \"5::\"+66 hex digits panics (index out of range)", func() error {
		in := []byte("5::" + strings.Repeat("ab", 33))
		if err := probeAlloc("ChainIndex.UnmarshalText", len(in), func() { new(types.ChainIndex).UnmarshalText(in) }); err != nil {
			return err
		}
		return probeAlloc("ParseChainIndex", len(in), func() { types.ParseChainIndex(string(in)) })
	})
	stats.ProbeKnown(t, keyF7, "rhp/v4 Account.UnmarshalText: hex.Decode into the 32-byte key without a length check: \"ed25519:\"+66 hex digits panics (index out of range); reachable through the JSON form of every rhp4 object with an Account", func() error {
		in := []byte("ed25519:" + strings.Repeat("ab", 33))
		if err := probeAlloc("Account.UnmarshalText", len(in), func() { new(rhp4.Account).UnmarshalText(in) }); err != nil {
			return err
		}
		js := []byte(`{"account":"` + string(in) + `"}`)
		return probeAlloc("AccountToken JSON", len(js), func() { json.Unmarshal(js, new(rhp4.AccountToken)) })
	})
	stats.ProbeKnown(t, keyN1, "consensus.ApplyUpdate.UnmarshalJSON: the keys of updatedLeaves / treeGrowth index a [64] array unchecked: {\"updatedLeaves\":{\"64\":[]}} panics (index out of range)", func() error {
		for _, js := range []string{`{"updatedLeaves":{"64":[]}}`, `{"treeGrowth":{"-1":[]}}`} {
			if err := probeAlloc(js, len(js), func() { new(consensus.ApplyUpdate).UnmarshalJSON([]byte(js)) }); err != nil {
				return err
			}
		}
		return nil
	})
	stats.ProbeKnown(t, keyN2, "consensus.RevertUpdate.UnmarshalJSON: the keys of updatedLeaves index a [64] array unchecked: {\"updatedLeaves\":{\"64\":[]}} panics (index out of range)", func() error {
		js := `{"updatedLeaves":{"64":[]}}`
		return probeAlloc(js, len(js), func() { new(consensus.RevertUpdate).UnmarshalJSON([]byte(js)) })
	})
	stats.ProbeKnown(t, keyN3, "types.ParseCurrency / Currency.UnmarshalText hand the numeric part to big.Rat.SetString, which accepts exponents up to 10^6 (decimal) / 10^7 (binary): the 11-byte string \"1e1000000SC\" makes the parser build, print and re-parse a million-digit number (tens of MiB, ~seconds of CPU per value; every Currency in a JSON body is such a value)", func() error {
		in := "1e100000SC" // a tenth of the maximum keeps the probe cheap; the cost grows faster than linearly
		if err := probeAlloc("ParseCurrency("+in+")", len(in), func() { types.ParseCurrency(in) }); err != nil {
			return err
		}
		js := []byte(`"` + in + `"`)
		return probeAlloc("Currency JSON", len(js), func() { json.Unmarshal(js, new(types.Currency)) })
	})

	stats.ProbeKnown(t, keyN4, "types.SpendPolicy.UnmarshalJSON recurses through json.RawMessage without the depth limit the binary decoder has (maxPolicyDepth): every threshold level copies and re-validates the rest of the document, so cost grows with depth x size — a 42 KB policy nested 1000 deep allocates 105 MB (2500 bytes per input byte), 140 KB nested 3333 deep (encoding/json's own limit) about 1.2 GB and seconds of CPU", func() error {
		d := 1000
		js := []byte(strings.Repeat(`{"type":"thresh","policy":{"n":1,"of":[`, d) + `{"type":"above","policy":0}` + strings.Repeat(`]}}`, d))
		return probeAlloc(fmt.Sprintf("SpendPolicy JSON nested %d deep", d), len(js), func() { json.Unmarshal(js, new(types.SpendPolicy)) })
	})
}
