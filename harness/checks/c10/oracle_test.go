package c10

import (
	"encoding/json"
	"fmt"
	"os"
	"runtime"
	"runtime/debug"

	"verif/harness/stats"
)

// The allocation budget of one call on untrusted input of n bytes:
//
//	allocFixed + allocPerByte*n (+ the size limit the library's own read function declares, see limitSlack)
//
// measured as the runtime.MemStats.TotalAlloc delta around the call. TotalAlloc is
// cumulative (independent of when the GC runs), so quadratic copying shows up as well.
const (
	allocFixed   = 1 << 20
	allocPerByte = 2048
)

func allocBudget(inputLen int, slack uint64) uint64 {
	return allocFixed + allocPerByte*uint64(inputLen) + slack
}

// callResult is what the oracle observed for one call.
type callResult struct {
	Panic      any
	Stack      []byte
	Alloc      uint64 // TotalAlloc delta (minimum of the two measurements if re-measured)
	Remeasured bool
}

type journalFile struct {
	Property string          `json:"property"`
	Test     string          `json:"test"`
	Error    string          `json:"error"`
	Case     json.RawMessage `json:"case"`
}

// journalCase stores c as the case that is about to run (replay-file format).
func journalCase(test string, c any) {
	if journal.f == nil {
		return
	}
	cb, err := json.Marshal(c)
	if err != nil {
		cb, _ = json.Marshal(fmt.Sprintf("%+v", c))
	}
	b, _ := json.Marshal(journalFile{Property: os.Getenv("VERIF_PROP"), Test: test,
		Error: "C10: the worker died (Go fatal error: out of memory / stack overflow) or hung while executing this case", Case: cb})
	journalWrite(b)
}

var memStats runtime.MemStats // reused: ReadMemStats into a fresh struct would itself allocate

func totalAlloc() uint64 {
	runtime.ReadMemStats(&memStats)
	return memStats.TotalAlloc
}

// measure runs f once on the calling goroutine and returns panic, stack and the
// number of bytes allocated meanwhile.
func measure(f func()) (r callResult) {
	callSeq.Add(1) // odd: the hang watchdog is armed
	before := totalAlloc()
	r.Panic, r.Stack = stats.NoPanic(f)
	r.Alloc = totalAlloc() - before
	callSeq.Add(1)
	return r
}

// guarded is the totality oracle for one call. The caller has journaled the case.
// f must be repeatable (it builds fresh values): when the first measurement exceeds
// the budget the call is run a second time and the smaller figure counts, so that a
// stray allocation by a runtime or transport goroutine cannot raise a false alarm.
func guarded(test string, inputLen int, slack uint64, f func()) callResult {
	callTest.Store(test)
	r := measure(f)
	if r.Panic == nil && r.Alloc > allocBudget(inputLen, slack) {
		first := r.Alloc
		runtime.GC()
		r2 := measure(f)
		r.Remeasured = true
		if r2.Panic != nil {
			r = r2
			r.Remeasured = true
		} else if r2.Alloc < r.Alloc {
			r.Alloc = r2.Alloc
		}
		if first > 64<<20 {
			debug.FreeOSMemory()
		}
	}
	journalClear()
	return r
}

// verdict turns a callResult into a failure (nil if the call was total).
// key is the finding key used when the call panicked or over-allocated.
func (r callResult) verdict(key, what string, inputLen int, slack uint64) error {
	if r.Panic != nil {
		return stats.Failf(key, "%s: panic: %v\n%s", what, r.Panic, r.Stack)
	}
	if b := allocBudget(inputLen, slack); r.Alloc > b {
		return stats.Failf(key, "%s: allocated %d bytes for %d bytes of input (budget %d = 1 MiB + 2048*len + declared limit %d; measured twice, minimum taken)",
			what, r.Alloc, inputLen, b, slack)
	}
	return nil
}

// allocClass buckets the ratio allocated/input for the evidence labels.
func allocClass(alloc uint64, inputLen int) string {
	switch per := alloc / uint64(inputLen+1); {
	case alloc <= 4096:
		return "alloc<=4KiB"
	case per <= 16:
		return "alloc<=16x"
	case per <= 256:
		return "alloc<=256x"
	case per <= 2048:
		return "alloc<=2048x"
	default:
		return "alloc>2048x(within fixed 1MiB or declared limit)"
	}
}
