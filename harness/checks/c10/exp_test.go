package c10

import (
	"fmt"
	"strings"
	"testing"

	rhp4 "go.sia.tech/core/rhp/v4"
	"go.sia.tech/core/types"
)

func TestExp(t *testing.T) {
	for _, n := range []int{64, 66, 68, 130} {
		in := []byte("5::" + strings.Repeat("ab", n/2))
		var err error
		r := measure(func() { err = new(types.ChainIndex).UnmarshalText(in) })
		fmt.Println(n, "ci", r.Panic, err)
		in = []byte("ed25519:" + strings.Repeat("ab", n/2))
		r = measure(func() { err = new(rhp4.Account).UnmarshalText(in) })
		fmt.Println(n, "acct", r.Panic, err)
	}
}
