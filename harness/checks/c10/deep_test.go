package c10

import (
	"bytes"
	"encoding/json"
	"fmt"
	"os"
	"os/exec"
	"strings"
	"testing"

	"verif/harness/stats"
)

// Deep nesting ("deep policies" of the property's quantifier).  Runaway recursion ends in
// a Go fatal error (stack overflow), which cannot be recovered in-process, so every deep
// input is executed by a child copy of this test binary (TestDeepChild) under the same
// oracle; the parent turns a dead child into an ordinary failure with a replay.  The
// process-wide stack limit is 64 MiB (main_test.go): an honest decoder needs a few
// hundred KiB, an unbounded recursion over a 3 MiB input needs more than that.
//
// Enumerated completely (plain unit): kinds x depths below.

// DeepCase names one deterministic deep input.
type DeepCase struct {
	Kind  string `json:"kind"`
	Depth int    `json:"depth"`
}

var deepKinds = []string{"bin:types.SpendPolicy", "bin:types.SatisfiedPolicy", "bin:types.V2SiacoinInput", "parse:types.ParseSpendPolicy",
	"json:types.SpendPolicy", "json:types.SatisfiedPolicy", "json:types.V2Transaction", "json:consensus.State"}

func deepDepths(kind string) []int {
	switch {
	case strings.HasPrefix(kind, "bin:"):
		// the decoder allows 32 levels below the root; far beyond it the input is megabytes long
		return []int{1, 31, 32, 33, 34, 64, 255, 1000, 65536, 1 << 20}
	case strings.HasPrefix(kind, "parse:"):
		return []int{1, 32, 33, 255, 1000, 20000} // the text parser has no depth limit: stack grows with the input
	default:
		return []int{1, 32, 33, 255, 1000, 3000, 3333, 3334, 5000, 20000} // encoding/json refuses documents deeper than 10000
	}
}

// deepInput builds the input and the checker call for a case.
func deepInput(c DeepCase) (run func(test string) error, size int, err error) {
	d := c.Depth
	switch {
	case strings.HasPrefix(c.Kind, "bin:"):
		// version 1, then d nested 1-of-1 thresholds (opcode 5, n, count) around above(0) (opcode 1 + uint64)
		pol := []byte{1}
		pol = append(pol, bytes.Repeat([]byte{5, 1, 1}, d)...)
		pol = append(pol, 1, 0, 0, 0, 0, 0, 0, 0, 0)
		var in []byte
		switch c.Kind {
		case "bin:types.SpendPolicy":
			in = pol
		case "bin:types.SatisfiedPolicy":
			in = append(pol, make([]byte, 16)...) // no signatures, no preimages
		case "bin:types.V2SiacoinInput":
			in = append(make([]byte, 8+8+32+16+32+8), pol...) // parent element with an empty proof
			in = append(in, make([]byte, 16)...)
		default:
			return nil, 0, fmt.Errorf("unknown kind %q", c.Kind)
		}
		dc := DecodeCase{Entry: strings.TrimPrefix(c.Kind, "bin:"), Input: hexEncode(in), Ops: []string{fmt.Sprintf("deep*%d", d)}}
		return func(test string) error { return checkDecodeAs(test, dc) }, len(in), nil
	case c.Kind == "parse:types.ParseSpendPolicy":
		in := strings.Repeat("thresh(1,[", d) + "above(0)" + strings.Repeat("])", d)
		tc := newTextCase(c.Kind, []byte(in), true, []string{fmt.Sprintf("deep*%d", d)})
		return func(test string) error { return checkTextAs(test, tc) }, len(in), nil
	case strings.HasPrefix(c.Kind, "json:"):
		pol := strings.Repeat(`{"type":"thresh","policy":{"n":1,"of":[`, d) + `{"type":"above","policy":0}` + strings.Repeat(`]}}`, d)
		var in string
		switch c.Kind {
		case "json:types.SpendPolicy":
			in = pol
		case "json:types.SatisfiedPolicy":
			in = `{"policy":` + pol + `}`
		case "json:types.V2Transaction":
			in = `{"siacoinInputs":[{"satisfiedPolicy":{"policy":` + pol + `}}]}`
		case "json:consensus.State":
			in = strings.Repeat("[", d) + strings.Repeat("]", d)
		default:
			return nil, 0, fmt.Errorf("unknown kind %q", c.Kind)
		}
		tc := newTextCase(c.Kind, []byte(in), true, []string{fmt.Sprintf("deep*%d", d)})
		return func(test string) error { return checkTextAs(test, tc) }, len(in), nil
	}
	return nil, 0, fmt.Errorf("unknown kind %q", c.Kind)
}

const deepChildEnv = "C10_DEEP_CASE"

// checkDeep runs the case in a child process and reports the child's verdict.
func checkDeep(c DeepCase) error {
	_, size, err := deepInput(c)
	if err != nil {
		return stats.Failf("", "harness: %v", err)
	}
	cb, _ := json.Marshal(c)
	cmd := exec.Command(os.Args[0], "-test.run", "^TestDeepChild$", "-test.timeout", "300s")
	for _, kv := range os.Environ() {
		if k := strings.SplitN(kv, "=", 2)[0]; k == "VERIF_STATS" || k == "VERIF_REPLAY_OUT" || k == "VERIF_JOURNAL" || k == "VERIF_REPLAY" {
			continue
		}
		cmd.Env = append(cmd.Env, kv)
	}
	cmd.Env = append(cmd.Env, deepChildEnv+"="+string(cb))
	out, runErr := cmd.CombinedOutput()
	fp := stats.FP("deep", c.Kind, c.Depth)
	if runErr == nil && bytes.Contains(out, []byte("C10-DEEP-OK")) {
		labels := []string{"deep:" + c.Kind}
		if i := bytes.Index(out, []byte("C10-DEEP-LABELS ")); i >= 0 {
			labels = append(labels, strings.Fields(strings.SplitN(string(out[i+len("C10-DEEP-LABELS "):]), "\n", 2)[0])...)
		}
		stats.G().Case(fp, true, labels...)
		return nil
	}
	tail := string(out)
	if i := strings.Index(tail, "fatal error:"); i >= 0 {
		tail = tail[i:]
	}
	if len(tail) > 3000 {
		tail = tail[:3000]
	}
	return stats.Failf("C10/deep/"+c.Kind, "%s nested %d deep (%d bytes): the child process executing it failed (%v):\n%s", c.Kind, c.Depth, size, runErr, tail)
}

// TestDeep enumerates kinds x depths (sharded).
func TestDeep(t *testing.T) {
	idx, n := stats.Shard()
	k := 0
	for _, kind := range deepKinds {
		for _, d := range deepDepths(kind) {
			if k++; k%n != idx {
				continue
			}
			stats.Check(t, DeepCase{Kind: kind, Depth: d}, checkDeep)
		}
	}
}

// TestDeepChild is the child side: it runs one case in-process under the oracle.
func TestDeepChild(t *testing.T) {
	raw := os.Getenv(deepChildEnv)
	if raw == "" {
		t.Skip("only run as a child of TestDeep")
	}
	var c DeepCase
	if err := json.Unmarshal([]byte(raw), &c); err != nil {
		t.Fatalf("bad case: %v", err)
	}
	run, _, err := deepInput(c)
	if err != nil {
		t.Fatal(err)
	}
	if err := stats.Safe("", func() error { return run("TestDeep") }); err != nil {
		t.Fatalf("%v", err)
	}
	fmt.Println("C10-DEEP-OK")
}

// TestReplayDeep feeds a saved case to the checker.
func TestReplayDeep(t *testing.T) { stats.Replay(t, "TestDeep", checkDeep) }
