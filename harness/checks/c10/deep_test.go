package c10

import (
	"fmt"
	"testing"
	"time"

	"go.sia.tech/core/consensus"
	"go.sia.tech/core/types"
	"pgregory.net/rapid"

	"verif/harness/sim"
	"verif/harness/stats"
)

// Deep histories. "Any block that passes validation can be applied and later reverted without panic" also speaks about
// states the transaction-level units never reach: heights in the hundreds and thousands, where the pre-Oak retarget
// (every 500 blocks), the Oak and ASIC eras and the monthly subsidy heights lie. This unit walks up to 1100 empty
// blocks on a generated network under a timestamp regime per stretch (on schedule, the minimum the median rule allows
// - all blocks of a stretch may carry one and the same timestamp -, slow, jittering), validates every block, applies
// it, and reverts and re-applies some: nothing may panic, and a block built by the honest miner must be accepted.

// DeepCase is a network, its genesis block and a timestamp regime per block.
type DeepCase struct {
	Net     *consensus.Network `json:"net"`
	Genesis types.Block        `json:"genesis"`
	Modes   []uint8            `json:"modes"`  // per block: 0 schedule, 1 minimum allowed, 2 parent + jitter
	Jitter  []int32            `json:"jitter"` // seconds, for mode 2
	V2      []bool             `json:"v2"`     // use the v2 block format where it is optional
}

func drawDeep(t *rapid.T) DeepCase {
	net, genesis := sim.GenNetwork(t, sim.NetOpts{MaxForkHeight: rapid.SampledFrom([]int{520, 640, 1100}).Draw(t, "forkSpan")})
	// the proof-of-work eras are laid out explicitly (integer generators favour small values, which would put every fork
	// in the first few dozen blocks): the Oak fork around the 500-block retarget boundaries, the later forks behind it
	step := func(name string) uint64 { return uint64(rapid.SampledFrom([]int{0, 1, 50, 200, 400}).Draw(t, name)) }
	net.HardforkOak.Height = uint64(rapid.SampledFrom([]int{0, 3, 499, 500, 501, 750, 1000, 1001, 1100}).Draw(t, "oak"))
	net.HardforkOak.FixHeight = net.HardforkOak.Height + step("oakFix")
	net.HardforkASIC.Height = net.HardforkOak.FixHeight + step("asic")
	net.HardforkFoundation.Height = net.HardforkASIC.Height + step("foundation")
	net.HardforkV2.AllowHeight = net.HardforkFoundation.Height + step("allow")
	net.HardforkV2.RequireHeight = max(net.HardforkV2.AllowHeight+step("require"), 1)
	net.HardforkV2.FinalCutHeight = net.HardforkV2.RequireHeight + step("finalCut")
	n := rapid.SampledFrom([]int{505, 520, 760, 1010, 1100}).Draw(t, "blocks")
	c := DeepCase{Net: net, Genesis: genesis}
	mode, left := uint8(0), 0
	for i := 0; i < n; i++ {
		if left == 0 {
			mode = uint8(rapid.SampledFrom([]int{0, 1, 1, 2}).Draw(t, "mode"))
			left = rapid.IntRange(1, 600).Draw(t, "stretch")
		}
		left--
		c.Modes = append(c.Modes, mode)
		c.Jitter = append(c.Jitter, int32(rapid.IntRange(-3, 4000).Draw(t, "jitter")))
		c.V2 = append(c.V2, rapid.Bool().Draw(t, "v2fmt"))
	}
	return c
}

func checkDeep(c DeepCase) error {
	rec := stats.G()
	if c.Net == nil || len(c.Modes) != len(c.Jitter) || len(c.Modes) != len(c.V2) {
		return stats.Failf("", "harness: malformed deep case")
	}
	ch, _, err := sim.NewChain(c.Net, c.Genesis)
	if err != nil {
		return stats.Failf("", "harness: genesis: %v", err)
	}
	cs := ch.Tip()
	stamps := []time.Time{c.Genesis.Timestamp} // by height
	retargets, reverts := 0, 0
	guard := func(what string, h uint64, f func()) error {
		if p, st := stats.NoPanic(f); p != nil {
			return stats.Failf("C10/deep/"+what, "%s of the block at height %d (a block the honest miner built and validation accepted) panicked: %v\n%s", what, h, p, st)
		}
		return nil
	}
	for i := range c.Modes {
		child := cs.Index.Height + 1
		blk := types.Block{Timestamp: sim.NextTimestamp(cs, int(c.Modes[i]), int64(c.Jitter[i]))}
		if child >= c.Net.HardforkV2.RequireHeight || (c.V2[i] && child >= c.Net.HardforkV2.AllowHeight) {
			blk.V2 = &types.V2BlockData{}
		}
		if err := sim.Seal(cs, &blk, types.Address{0xD0}); err != nil {
			break // the simulator cannot mine this target: the history ends here
		}
		var verr error
		if err := guard("validate", child, func() { verr = consensus.ValidateBlock(cs, blk, consensus.V1BlockSupplement{}) }); err != nil {
			return err
		}
		if verr != nil {
			return stats.Failf("C10/deep/honest-rejected", "empty block at height %d (timestamp regime %d) built on the tip is rejected: %v", child, c.Modes[i], verr)
		}
		// what a node supplies: the timestamp of the ancestor 1000 blocks before the parent (genesis for shorter chains)
		anc := 0
		if parent := int(child) - 1; parent > 1000 {
			anc = parent - 1000
		}
		target := stamps[anc]
		var next consensus.State
		if err := guard("apply", child, func() { next, _ = consensus.ApplyBlock(cs, blk, consensus.V1BlockSupplement{}, target) }); err != nil {
			return err
		}
		if i%97 == 96 || child%500 <= 1 {
			if err := guard("revert", child, func() { _ = consensus.RevertBlock(cs, blk, consensus.V1BlockSupplement{}) }); err != nil {
				return err
			}
			var again consensus.State
			if err := guard("re-apply", child, func() { again, _ = consensus.ApplyBlock(cs, blk, consensus.V1BlockSupplement{}, target) }); err != nil {
				return err
			}
			if string(sim.StateBytes(again)) != string(sim.StateBytes(next)) {
				return stats.Failf("C10/deep/re-apply", "re-applying the block at height %d after reverting it gives a different state", child)
			}
			reverts++
		}
		if child%500 == 0 && child <= c.Net.HardforkOak.Height {
			retargets++
		}
		stamps = append(stamps, blk.Timestamp)
		cs = next
	}
	labels := []string{fmt.Sprintf("deep:height>=%d", cs.Index.Height/250*250)}
	if retargets > 0 {
		labels = append(labels, "deep:pre-oak-retarget-block-applied")
	}
	rec.Case(stats.FP("deep", cs.Index.ID[:]), cs.Index.Height >= 500, labels...)
	rec.Extra("deep_blocks_applied", cs.Index.Height)
	return nil
}

func TestDeep(t *testing.T)       { stats.Prop(t, drawDeep, checkDeep) }
func TestReplayDeep(t *testing.T) { stats.Replay(t, "TestDeep", checkDeep) }
