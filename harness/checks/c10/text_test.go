package c10

import (
	"encoding"
	"encoding/json"
	"fmt"
	"reflect"
	"sort"
	"strings"
	"sync"
	"testing"

	"go.sia.tech/core/consensus"
	rhp2 "go.sia.tech/core/rhp/v2"
	rhp3 "go.sia.tech/core/rhp/v3"
	rhp4 "go.sia.tech/core/rhp/v4"
	"go.sia.tech/core/types"
	"pgregory.net/rapid"
	"verif/harness/gen"
	"verif/harness/stats"
)

// textEntry is one text-side entry point of the library: an UnmarshalText, an
// UnmarshalJSON (reached through json.Unmarshal, which also drives every nested
// UnmarshalText / UnmarshalJSON of the type's fields) or a Parse* function.
type textEntry struct {
	Name string // "text:<type>", "json:<type>", "parse:<func>"
	Kind string // text | json | parse
	Pkg  string
	// Run feeds in to the entry point with a fresh target and returns the value it produced.
	Run func(in []byte) (val any, err error)
	// Again re-serialises a successfully produced value in the same format; it must not panic.
	Again func(val any) error
	// Seed produces a valid text form from generated values.
	Seed func(t *rapid.T) []byte
}

var (
	textOnce    sync.Once
	textEntries []*textEntry
	textIndex   map[string]*textEntry
)

func textOpts() gen.Opts { o := genOpts(); o.UTF8 = true; return o }

// genValue generates a value of typ, nil if the reflective generator cannot handle the type.
func genValue(t *rapid.T, typ reflect.Type) (v reflect.Value, ok bool) {
	if p, _ := stats.NoPanic(func() { v = gen.Value(t, typ, textOpts()) }); p != nil {
		return reflect.Value{}, false
	}
	return v, v.IsValid()
}

func marshalSeed(t *rapid.T, typ reflect.Type, marshal func(v any) ([]byte, error), fallback string) []byte {
	if v, ok := genValue(t, typ); ok {
		var b []byte
		var err error
		if p, _ := stats.NoPanic(func() { b, err = marshal(v.Interface()) }); p == nil && err == nil {
			return b
		}
	}
	return []byte(fallback)
}

func textMarshal(v any) ([]byte, error) {
	if tm, ok := v.(encoding.TextMarshaler); ok {
		return tm.MarshalText()
	}
	return nil, fmt.Errorf("no MarshalText")
}

func pkgOf(t reflect.Type) string {
	p := t.PkgPath()
	switch {
	case strings.HasSuffix(p, "rhp/v2"):
		return "rhp2"
	case strings.HasSuffix(p, "rhp/v3"):
		return "rhp3"
	case strings.HasSuffix(p, "rhp/v4"):
		return "rhp4"
	}
	return p[strings.LastIndexByte(p, '/')+1:]
}

func typeName(t reflect.Type) string { return pkgOf(t) + "." + t.Name() }

// extraTypes are JSON/text-capable exported types that have no binary codec of their
// own and are therefore not in gen.Registry().
var extraTypes = []reflect.Type{
	reflect.TypeOf(types.Currency{}), reflect.TypeOf(types.Block{}), reflect.TypeOf(types.SiacoinOutput{}),
	reflect.TypeOf(types.SiafundOutput{}), reflect.TypeOf(types.AttestationElement{}),
	reflect.TypeOf(consensus.Network{}), reflect.TypeOf(consensus.ApplyUpdate{}), reflect.TypeOf(consensus.RevertUpdate{}),
	reflect.TypeOf(consensus.SiacoinElementDiff{}), reflect.TypeOf(consensus.SiafundElementDiff{}),
	reflect.TypeOf(consensus.FileContractElementDiff{}), reflect.TypeOf(consensus.V2FileContractElementDiff{}),
	reflect.TypeOf(rhp2.HostSettings{}), reflect.TypeOf(rhp3.HostPriceTable{}),
	reflect.TypeOf(rhp4.ProtocolVersion{}), reflect.TypeOf(rhp4.AccountToken{}), reflect.TypeOf(rhp4.Usage{}),
}

func newTextEntry(typ reflect.Type) *textEntry {
	return &textEntry{
		Name: "text:" + typeName(typ), Kind: "text", Pkg: pkgOf(typ),
		Run: func(in []byte) (any, error) {
			p := reflect.New(typ)
			return p.Elem().Interface(), p.Interface().(encoding.TextUnmarshaler).UnmarshalText(in)
		},
		Again: func(v any) error { _, err := textMarshal(v); return err },
		Seed:  func(t *rapid.T) []byte { return marshalSeed(t, typ, textMarshal, "") },
	}
}

func newJSONEntry(typ reflect.Type, seed func(t *rapid.T) []byte) *textEntry {
	if seed == nil {
		seed = func(t *rapid.T) []byte { return marshalSeed(t, typ, json.Marshal, "{}") }
	}
	return &textEntry{
		Name: "json:" + typeName(typ), Kind: "json", Pkg: pkgOf(typ),
		Run: func(in []byte) (any, error) {
			p := reflect.New(typ)
			err := json.Unmarshal(in, p.Interface())
			return p.Elem().Interface(), err
		},
		Again: func(v any) error { _, err := json.Marshal(v); return err },
		Seed:  seed,
	}
}

// updateSeed assembles the JSON form of an ApplyUpdate / RevertUpdate from generated
// element diffs (the update types themselves have only unexported fields).
func updateSeed(apply bool) func(t *rapid.T) []byte {
	return func(t *rapid.T) []byte {
		arr := func(typ reflect.Type) json.RawMessage {
			n := rapid.IntRange(0, 2).Draw(t, "n")
			parts := make([]string, 0, n)
			for i := 0; i < n; i++ {
				parts = append(parts, string(marshalSeed(t, typ, json.Marshal, "{}")))
			}
			return json.RawMessage("[" + strings.Join(parts, ",") + "]")
		}
		leaves := func() json.RawMessage {
			m := map[string]json.RawMessage{}
			for i, n := 0, rapid.IntRange(0, 3).Draw(t, "heights"); i < n; i++ {
				h := rapid.IntRange(0, 63).Draw(t, "h")
				m[fmt.Sprint(h)] = arr(reflect.TypeOf(types.StateElement{}))
			}
			b, _ := json.Marshal(m)
			return b
		}
		growth := func() json.RawMessage {
			m := map[string]json.RawMessage{}
			for i, n := 0, rapid.IntRange(0, 3).Draw(t, "heights"); i < n; i++ {
				h := rapid.IntRange(0, 63).Draw(t, "h")
				m[fmt.Sprint(h)] = arr(reflect.TypeOf(types.Hash256{}))
			}
			b, _ := json.Marshal(m)
			return b
		}
		doc := map[string]json.RawMessage{
			"siacoinElements":            arr(reflect.TypeOf(consensus.SiacoinElementDiff{})),
			"siafundElementDiffs":        arr(reflect.TypeOf(consensus.SiafundElementDiff{})),
			"fileContractElementDiffs":   arr(reflect.TypeOf(consensus.FileContractElementDiff{})),
			"v2FileContractElementDiffs": arr(reflect.TypeOf(consensus.V2FileContractElementDiff{})),
			"attestationElements":        arr(reflect.TypeOf(types.AttestationElement{})),
			"chainIndexElement":          json.RawMessage(marshalSeed(t, reflect.TypeOf(types.ChainIndexElement{}), json.Marshal, "{}")),
			"updatedLeaves":              leaves(),
			"numLeaves":                  json.RawMessage(fmt.Sprint(rapid.Uint64().Draw(t, "numLeaves"))),
		}
		if apply {
			doc["treeGrowth"] = growth()
			doc["oldNumLeaves"] = json.RawMessage(fmt.Sprint(rapid.Uint64().Draw(t, "oldNumLeaves")))
		}
		b, _ := json.Marshal(doc)
		return b
	}
}

func policySeed(t *rapid.T) []byte {
	if v, ok := genValue(t, reflect.TypeOf(types.SpendPolicy{})); ok {
		var s string
		if p, _ := stats.NoPanic(func() { s = v.Interface().(types.SpendPolicy).String() }); p == nil {
			return []byte(s)
		}
	}
	return []byte("above(0)")
}

func currencySeed(t *rapid.T) []byte {
	v, ok := genValue(t, reflect.TypeOf(types.Currency{}))
	if !ok {
		return []byte("1 SC")
	}
	c := v.Interface().(types.Currency)
	switch rapid.IntRange(0, 3).Draw(t, "form") {
	case 0:
		return []byte(c.String())
	case 1:
		return []byte(c.ExactString())
	case 2:
		return []byte(fmt.Sprintf("%d", c))
	default:
		return []byte(c.ExactString() + " H")
	}
}

func parseEntry(name, pkg string, run func(s string) (any, error), again func(v any) error, seed func(t *rapid.T) []byte) *textEntry {
	if again == nil {
		again = func(v any) error { _ = fmt.Sprint(v); _, err := json.Marshal(v); return err }
	}
	return &textEntry{Name: "parse:" + name, Kind: "parse", Pkg: pkg,
		Run: func(in []byte) (any, error) { return run(string(in)) }, Again: again, Seed: seed}
}

func allTextEntries() []*textEntry {
	textOnce.Do(func() {
		seen := map[reflect.Type]bool{}
		var tm *encoding.TextUnmarshaler
		add := func(typ reflect.Type) {
			if seen[typ] {
				return
			}
			seen[typ] = true
			if reflect.PointerTo(typ).Implements(reflect.TypeOf(tm).Elem()) {
				textEntries = append(textEntries, newTextEntry(typ))
			}
			switch typ {
			case reflect.TypeOf(consensus.ApplyUpdate{}):
				textEntries = append(textEntries, newJSONEntry(typ, updateSeed(true)))
			case reflect.TypeOf(consensus.RevertUpdate{}):
				textEntries = append(textEntries, newJSONEntry(typ, updateSeed(false)))
			default:
				textEntries = append(textEntries, newJSONEntry(typ, nil))
			}
		}
		for _, e := range gen.Registry() {
			add(e.Type)
		}
		for _, typ := range extraTypes {
			add(typ)
		}
		hexSeed := func(typ reflect.Type) func(t *rapid.T) []byte {
			return func(t *rapid.T) []byte { return marshalSeed(t, typ, textMarshal, "") }
		}
		textEntries = append(textEntries,
			parseEntry("types.ParseCurrency", "types", func(s string) (any, error) { return types.ParseCurrency(s) }, nil, currencySeed),
			parseEntry("types.ParseChainIndex", "types", func(s string) (any, error) { return types.ParseChainIndex(s) }, nil, hexSeed(reflect.TypeOf(types.ChainIndex{}))),
			parseEntry("types.ParseAddress", "types", func(s string) (any, error) { return types.ParseAddress(s) }, nil, hexSeed(reflect.TypeOf(types.Address{}))),
			parseEntry("types.ParseSpendPolicy", "types", func(s string) (any, error) { return types.ParseSpendPolicy(s) },
				func(v any) error { _ = v.(types.SpendPolicy).String(); _, err := json.Marshal(v); return err }, policySeed),
			parseEntry("rhp3.SettingsID.LoadString", "rhp3", func(s string) (any, error) { var id rhp3.SettingsID; err := id.LoadString(s); return id, err }, nil,
				func(t *rapid.T) []byte {
					v, _ := genValue(t, reflect.TypeOf(rhp3.SettingsID{}))
					return []byte(v.Interface().(rhp3.SettingsID).String())
				}),
		)
		sort.Slice(textEntries, func(i, j int) bool { return textEntries[i].Name < textEntries[j].Name })
		textIndex = map[string]*textEntry{}
		for _, e := range textEntries {
			if textIndex[e.Name] != nil {
				panic("c10: duplicate text entry " + e.Name)
			}
			textIndex[e.Name] = e
		}
	})
	return textEntries
}

// TextCase is one input for one text-side entry point.
type TextCase struct {
	Entry  string   `json:"entry"`
	Input  string   `json:"input"` // the text itself (JSON string escaping keeps replays readable)
	Raw    string   `json:"raw,omitempty"`
	Shaped bool     `json:"shaped"` // the mutation kept the overall shape (separators / JSON syntax)
	Ops    []string `json:"ops,omitempty"`
}

// input returns the bytes: Raw (hex) is used when the text is not valid UTF-8.
func (c TextCase) input() []byte {
	if c.Raw != "" {
		b, _ := hexDecode(c.Raw)
		return b
	}
	return []byte(c.Input)
}

func newTextCase(entry string, in []byte, shaped bool, ops []string) TextCase {
	c := TextCase{Entry: entry, Shaped: shaped, Ops: ops}
	if rt, err := json.Marshal(string(in)); err == nil {
		var back string
		if json.Unmarshal(rt, &back) == nil && back == string(in) {
			c.Input = string(in)
			return c
		}
	}
	c.Raw = hexEncode(in)
	return c
}

func drawText(t *rapid.T) TextCase {
	all := allTextEntries()
	var e *textEntry
	if only := stats.EnvInt("C10_TEXT_ONLY", -1); only >= 0 && only < len(all) {
		e = all[only]
	} else if b := rapid.IntRange(0, 7).Draw(t, "bias"); b == 2 {
		// an eighth go to the spend-policy forms: the only JSON decoder of the library with a hand-written pre-scan and a
		// recursion of its own, one entry among two hundred otherwise
		var pol []*textEntry
		for _, x := range all {
			if strings.Contains(x.Name, "Policy") {
				pol = append(pol, x)
			}
		}
		e = pol[uniform(t, len(pol))]
	} else if b <= 1 {
		// a quarter of the cases go to the hand-written parsers and UnmarshalText methods,
		// which are few among the ~190 JSON entries
		var small []*textEntry
		for _, x := range all {
			if x.Kind != "json" {
				small = append(small, x)
			}
		}
		e = small[uniform(t, len(small))]
	} else {
		e = all[uniform(t, len(all))]
	}
	seed := e.Seed(t)
	m := &mut{t: t}
	var in []byte
	var shaped bool
	if e.Kind == "json" {
		in, shaped = m.mutateJSON(seed)
	} else {
		in, shaped = m.mutateText(seed)
	}
	return newTextCase(e.Name, in, shaped, m.ops)
}

// drawTextTxn is drawText restricted to the JSON forms of transactions and blocks, whose decoded values go on to
// the validation entry points (validateDecoded): holes in the structure (null / missing / emptied members) are what
// produces nil interfaces and zero sub-structures that no binary decoder can produce.
func drawTextTxn(t *rapid.T) TextCase {
	allTextEntries()
	names := []string{"json:types.V2Transaction", "json:types.V2Transaction", "json:types.Transaction", "json:types.Block", "json:types.V2BlockData"}
	e := textIndex[names[uniform(t, len(names))]]
	if e == nil {
		panic("harness: transaction / block JSON entries are missing from the text table")
	}
	seed := e.Seed(t)
	m := &mut{t: t}
	in, shaped := m.mutateJSON(seed)
	return newTextCase(e.Name, in, shaped, m.ops)
}

func checkTextTxn(c TextCase) error { return checkTextAs("TestTextTxn", c) }

// TestTextTxn: hostile JSON for transactions and blocks, decoded and then validated.
func TestTextTxn(t *testing.T)        { stats.Prop(t, drawTextTxn, checkTextTxn) }
func TestReplayTextTxn(t *testing.T)  { stats.Replay(t, "TestTextTxn", checkTextTxn) }
func TestRegressTextTxn(t *testing.T) { stats.Regress(t, "TestTextTxn", checkTextTxn) }

func checkText(c TextCase) error { return checkTextAs("TestText", c) }

func checkTextAs(test string, c TextCase) error {
	rec := stats.G()
	allTextEntries()
	e := textIndex[c.Entry]
	if e == nil {
		return stats.Failf("", "harness: unknown text entry %q", c.Entry)
	}
	in := c.input()
	fp := stats.FP("text", e.Name, in)
	if k := preClassText(in); k != "" && stats.KnownOpen(k) {
		rec.Excluded(k)
		rec.Case(fp, false, "excluded-known-class")
		return nil
	}
	journalCase(test, c)
	var val any
	var err error
	r := guarded(test, len(in), 0, func() { val, err = e.Run(in) })
	what := fmt.Sprintf("%s on %d bytes %s [%s]", e.Name, len(in), clip(in), strings.Join(c.Ops, " "))
	if k := classifyPanic(r); k != "" && stats.KnownOpen(k) {
		rec.Excluded(k)
		rec.Case(fp, false, "excluded-known-class")
		return nil
	} else if k != "" {
		return r.verdict(k, what, len(in), 0)
	}
	failKey := "C10/" + e.Kind + "/" + strings.TrimPrefix(e.Name, e.Kind+":")
	if k := preClassText(in); k != "" {
		failKey = k
	}
	if verr := r.verdict(failKey, what, len(in), 0); verr != nil {
		return verr
	}
	labels := []string{"kind:" + e.Kind, "pkg:" + e.Pkg, allocClass(r.Alloc, len(in))}
	if r.Remeasured {
		labels = append(labels, "remeasured")
	}
	if err == nil {
		labels = append(labels, "accepted")
		journalCase(test, c)
		r2 := guarded(test, len(in), uint64(len(in))*allocPerByte, func() { e.Again(val) })
		if k := classifyPanic(r2); k != "" && stats.KnownOpen(k) {
			rec.Excluded(k)
		} else if r2.Panic != nil {
			return stats.Failf("C10/remarshal/"+e.Name, "%s: accepted, but serialising the produced value again panics: %v\n%s", what, r2.Panic, r2.Stack)
		}
		// a decodable transaction or block is what a node validates next: every validation entry point has to
		// return (an error, normally) for whatever the text decoder let through
		if ran, r3 := validateDecoded(test, val, len(in)); ran {
			labels = append(labels, "validated-after-decode")
			if r3.Panic != nil {
				return stats.Failf("C10/validate-decoded/"+e.Name, "%s: decoded without error, but validating the decoded value panics: %v\n%s", what, r3.Panic, r3.Stack)
			}
		}
	} else {
		labels = append(labels, "rejected")
	}
	// non-trivial: the input got past the first structural check — it was accepted, or it kept
	// the shape of a valid form (JSON: it is syntactically valid, so the type's own code saw it)
	nt := err == nil
	if !nt && e.Kind == "json" {
		nt = json.Valid(in)
		if nt {
			labels = append(labels, "valid-json-rejected-by-type")
		}
	} else if !nt {
		nt = c.Shaped && len(c.Ops) > 0
	}
	for _, op := range c.Ops {
		labels = append(labels, "op:"+strings.FieldsFunc(op, func(r rune) bool { return strings.ContainsRune("@=+-*! ", r) })[0])
	}
	rec.Case(fp, nt, labels...)
	if rec.WantSample() {
		rec.Sample(nt, map[string]any{"entry": e.Name, "input": clip(in), "ops": c.Ops, "err": fmt.Sprint(err), "alloc": r.Alloc})
	}
	return nil
}

func clip(b []byte) string {
	if len(b) > 120 {
		return fmt.Sprintf("%q...(%d bytes)", b[:120], len(b))
	}
	return fmt.Sprintf("%q", b)
}

// TestText: rapid-generated hostile text for every UnmarshalText / UnmarshalJSON / Parse*.
func TestText(t *testing.T) { stats.Prop(t, drawText, checkText) }

// TestReplayText feeds a saved case to the checker.
func TestReplayText(t *testing.T) { stats.Replay(t, "TestText", checkText) }

// TestRegressText runs the committed regression inputs (replays/C10/regress-*.json).
func TestRegressText(t *testing.T) { stats.Regress(t, "TestText", checkText) }

// decodedState is a plain state in which v1 and v2 transactions are both allowed (height 5 of a network whose v2
// window is open), for validating values that came out of a text decoder.
func decodedState() consensus.State {
	n := &consensus.Network{InitialTarget: types.BlockID{0xFF}, BlockInterval: 600e9}
	n.HardforkV2.AllowHeight, n.HardforkV2.RequireHeight, n.HardforkV2.FinalCutHeight = 2, 1000, 2000
	n.HardforkASIC.NonceFactor = 1
	cs := consensus.State{Network: n, Index: types.ChainIndex{Height: 5}}
	cs.ChildTarget = types.BlockID{0xFF}
	return cs
}

// validateDecoded runs the validation entry points on a value produced by a text decoder, if it is a transaction
// or a block. Verdicts do not matter here (nothing in the state exists), only that every call returns.
func validateDecoded(test string, val any, n int) (bool, callResult) {
	cs := decodedState()
	var f func()
	switch v := val.(type) {
	case types.V2Transaction:
		f = func() {
			_ = consensus.ValidateV2Transaction(consensus.NewMidState(cs), v)
			_ = cs.Elements.ValidateTransactionElements(v)
			b := types.Block{ParentID: cs.Index.ID, MinerPayouts: []types.SiacoinOutput{{Value: cs.BlockReward()}}, V2: &types.V2BlockData{Height: 6, Transactions: []types.V2Transaction{v}}}
			_ = consensus.ValidateOrphan(cs, b)
			_ = consensus.ValidateBlock(cs, b, consensus.V1BlockSupplement{})
		}
	case types.Transaction:
		f = func() {
			_ = consensus.ValidateTransaction(consensus.NewMidState(cs), v, consensus.V1TransactionSupplement{})
			b := types.Block{ParentID: cs.Index.ID, MinerPayouts: []types.SiacoinOutput{{Value: cs.BlockReward()}}, Transactions: []types.Transaction{v}}
			_ = consensus.ValidateOrphan(cs, b)
			_ = consensus.ValidateBlock(cs, b, consensus.V1BlockSupplement{Transactions: make([]consensus.V1TransactionSupplement, 1)})
		}
	case types.Block:
		f = func() {
			_ = consensus.ValidateOrphan(cs, v)
			_ = consensus.ValidateHeader(cs, v.Header())
			_ = consensus.ValidateBlock(cs, v, consensus.V1BlockSupplement{Transactions: make([]consensus.V1TransactionSupplement, len(v.Transactions))})
		}
	case types.V2BlockData:
		f = func() {
			b := types.Block{ParentID: cs.Index.ID, MinerPayouts: []types.SiacoinOutput{{Value: cs.BlockReward()}}, V2: &v}
			_ = consensus.ValidateOrphan(cs, b)
			_ = consensus.ValidateBlock(cs, b, consensus.V1BlockSupplement{})
		}
	default:
		return false, callResult{}
	}
	return true, guarded(test, n, 64<<20, f)
}
