package c10

import (
	"encoding/binary"
	"encoding/json"
	"fmt"
	"sort"
	"strings"

	"pgregory.net/rapid"
)

// hostile are the values written over length prefixes, counts, enums, bools and
// indices (little-endian 64-bit windows, aligned or not).
var hostile = []uint64{0, 1, 2, 255, 256,
	1 << 16, 1 << 17, 1 << 18, 1 << 19, 1 << 20, 1 << 21, 1 << 22, 1 << 23, 1 << 24, // measurable allocations
	1<<31 - 1, 1 << 31, 1 << 32, 1 << 62, 1 << 63, ^uint64(0)}

// maxInputLen caps generated inputs (a seed may be larger; mutations never grow an input beyond it).
const maxInputLen = 1 << 20

// hostileBytes are written over single bytes (bools, opcodes, versions, tags, kinds).
var hostileBytes = []byte{0, 1, 2, 3, 4, 5, 6, 7, 8, 0x7f, 0x80, 0xfe, 0xff}

// mut draws mutations from rapid and remembers what it did (for samples and replays).
type mut struct {
	t   *rapid.T
	ops []string
}

func (m *mut) intn(n int, label string) int {
	if n <= 1 {
		return 0
	}
	return rapid.IntRange(0, n-1).Draw(m.t, label)
}

func (m *mut) note(format string, args ...any) { m.ops = append(m.ops, fmt.Sprintf(format, args...)) }

// fill expands a drawn seed into n pseudo-random bytes (one rapid draw, not n).
func (m *mut) fill(n int) []byte {
	x := rapid.Uint64().Draw(m.t, "fill")
	return fillSeed(n, x)
}

// fillSeed is splitmix64 output of seed x, n bytes.
func fillSeed(n int, x uint64) []byte {
	b := make([]byte, n)
	for i := 0; i < n; i += 8 {
		x += 0x9E3779B97F4A7C15
		z := x
		z = (z ^ (z >> 30)) * 0xBF58476D1CE4E5B9
		z = (z ^ (z >> 27)) * 0x94D049BB133111EB
		z ^= z >> 31
		for j := 0; j < 8 && i+j < n; j++ {
			b[i+j] = byte(z >> (8 * j))
		}
	}
	return b
}

// prefixCandidates returns the offsets of 8-byte windows that look like a length
// prefix or count: little-endian value not larger than the whole input. This finds
// the real prefixes of a valid encoding (and runs of zero bytes) without a schema.
func prefixCandidates(b []byte) []int {
	var c []int
	for o := 0; o+8 <= len(b); o++ {
		if b[o+4] == 0 && b[o+5] == 0 && b[o+6] == 0 && b[o+7] == 0 {
			if v := binary.LittleEndian.Uint64(b[o:]); v <= uint64(len(b)) {
				c = append(c, o)
			}
		}
	}
	return c
}

// windowValue draws the value to write at offset o: a hostile constant, a hostile
// constant +-1, or a value relative to the number of bytes that follow the window
// (exactly the boundary of the decoder's "prefix > bytes left" checks).
func (m *mut) windowValue(b []byte, o int) uint64 {
	rem := uint64(len(b) - min(len(b), o+8))
	switch m.intn(10, "vkind") {
	case 0, 1, 2, 3, 4:
		return hostile[m.intn(len(hostile), "hostile")]
	case 5:
		return hostile[m.intn(len(hostile), "hostile")] + 1
	case 6:
		return hostile[m.intn(len(hostile), "hostile")] - 1
	case 7:
		return []uint64{rem, rem + 1, rem - 1, rem + 8, rem * 2, rem/2 + 1}[m.intn(6, "rel")]
	case 8:
		return []uint64{rem / 32, rem/32 + 1, rem / 8, rem/8 + 1, rem / 16, rem/16 + 1, rem / 24, rem/24 + 1}[m.intn(8, "relelem")]
	default:
		return rapid.Uint64().Draw(m.t, "any")
	}
}

func clone(b []byte) []byte { return append([]byte{}, b...) }

// one applies one structure-aware mutation to b. other supplies a second valid
// encoding (for splicing); it may return nil.
func (m *mut) one(b []byte, other func() []byte) []byte {
	b = clone(b)
	switch k := m.intn(100, "op"); {
	case k < 32 && len(b) >= 8: // overwrite a window that looks like a prefix/count
		c := prefixCandidates(b)
		if len(c) == 0 {
			c = []int{0}
		}
		o := c[m.intn(len(c), "cand")]
		v := m.windowValue(b, o)
		binary.LittleEndian.PutUint64(b[o:], v)
		m.note("prefix@%d=%#x", o, v)
	case k < 47 && len(b) >= 8: // overwrite any window, aligned or unaligned
		o := m.intn(len(b)-7, "off")
		if m.intn(2, "align") == 0 {
			o &^= 7
		}
		v := m.windowValue(b, o)
		binary.LittleEndian.PutUint64(b[o:], v)
		m.note("window@%d=%#x", o, v)
	case k < 57 && len(b) >= 1: // single byte: bool / opcode / version / tag
		o := m.intn(len(b), "off")
		v := hostileBytes[m.intn(len(hostileBytes), "byte")]
		b[o] = v
		m.note("byte@%d=%#x", o, v)
	case k < 67 && len(b) >= 1: // truncate
		var n int
		switch m.intn(3, "where") {
		case 0:
			n = len(b) - 1 - m.intn(min(len(b), 9), "cut")
		case 1:
			n = m.intn(min(len(b), 17), "keep")
		default:
			n = m.intn(len(b), "keep")
		}
		n = max(0, n)
		b = b[:n]
		m.note("truncate=%d", n)
	case k < 72: // extend
		n := 1 + m.intn(64, "ext")
		switch m.intn(3, "extkind") {
		case 0:
			b = append(b, make([]byte, n)...)
		case 1:
			for i := 0; i < n; i++ {
				b = append(b, 0xff)
			}
		default:
			b = append(b, m.fill(n)...)
		}
		m.note("extend+%d", n)
	case k < 80: // splice with another valid encoding
		o := other()
		if len(o) == 0 {
			o = m.fill(1 + m.intn(40, "rnd"))
		}
		i, j := m.intn(len(b)+1, "cutA"), m.intn(len(o)+1, "cutB")
		b = append(b[:i:i], o[j:]...)
		m.note("splice %d|%d", i, len(o)-j)
	case k < 87 && len(b) >= 1: // bit flips
		n := 1 + m.intn(4, "flips")
		for i := 0; i < n; i++ {
			o := m.intn(len(b), "off")
			b[o] ^= 1 << m.intn(8, "bit")
		}
		m.note("flip*%d", n)
	case k < 92 && len(b) >= 1: // delete or insert a few bytes (shifts every later field)
		o := m.intn(len(b), "off")
		n := 1 + m.intn(8, "n")
		if m.intn(2, "ins") == 0 {
			b = append(b[:o:o], b[min(len(b), o+n):]...)
			m.note("delete@%d*%d", o, n)
		} else {
			b = append(b[:o:o], append(make([]byte, n), b[o:]...)...)
			m.note("insert@%d*%d", o, n)
		}
	default: // a run of hostile constants, optionally after a valid prefix
		keep := 0
		if len(b) > 0 && m.intn(2, "keepprefix") == 0 {
			keep = m.intn(len(b)+1, "keep")
		}
		b = b[:keep:keep]
		n := 1 + m.intn(8, "consts")
		for i := 0; i < n; i++ {
			b = binary.LittleEndian.AppendUint64(b, hostile[m.intn(len(hostile), "hostile")])
		}
		m.note("consts@%d*%d", keep, n)
	}
	return b
}

// mutateBytes applies 0..3 mutations.
func (m *mut) mutateBytes(b []byte, other func() []byte) []byte {
	n := []int{0, 1, 1, 1, 1, 1, 1, 1, 1, 1, 1, 1, 2, 2, 2, 2, 2, 3, 3, 3}[m.intn(20, "nmut")]
	for i := 0; i < n; i++ {
		if next := m.one(b, other); len(next) <= maxInputLen {
			b = next
		}
	}
	return b
}

// ---------------------------------------------------------------------------
// Text forms (UnmarshalText / Parse*)
// ---------------------------------------------------------------------------

type span struct{ lo, hi int }

func runs(s []byte, ok func(c byte) bool, minLen int) []span {
	var out []span
	for i := 0; i < len(s); {
		if !ok(s[i]) {
			i++
			continue
		}
		j := i
		for j < len(s) && ok(s[j]) {
			j++
		}
		if j-i >= minLen {
			out = append(out, span{i, j})
		}
		i = j
	}
	return out
}

func isHex(c byte) bool {
	return c >= '0' && c <= '9' || c >= 'a' && c <= 'f' || c >= 'A' && c <= 'F'
}
func isDigit(c byte) bool { return c >= '0' && c <= '9' }

func splice(s []byte, sp span, repl []byte) []byte {
	out := make([]byte, 0, len(s)-(sp.hi-sp.lo)+len(repl))
	out = append(out, s[:sp.lo]...)
	out = append(out, repl...)
	return append(out, s[sp.hi:]...)
}

func rep(c byte, n int) []byte {
	b := make([]byte, n)
	for i := range b {
		b[i] = c
	}
	return b
}

func (m *mut) hexChars(n int) []byte {
	b := m.fill((n + 1) / 2)
	const digits = "0123456789abcdef"
	out := make([]byte, 0, n+1)
	for _, c := range b {
		out = append(out, digits[c>>4], digits[c&15])
	}
	return out[:n]
}

// hostileNumbers are written over runs of digits (decimal text).
var hostileNumbers = []string{
	"0", "1", "2", "255", "256", "65536", "1048576", "16777216", "2147483647", "2147483648", "4294967296",
	"4611686018427387904", "9223372036854775807", "9223372036854775808", "18446744073709551615", "18446744073709551616",
	"340282366920938463463374607431768211455", "340282366920938463463374607431768211456",
	"115792089237316195423570985008687907853269984665640564039457584007913129639935",
	"115792089237316195423570985008687907853269984665640564039457584007913129639936",
	"-1", "-0", "+5", "00000000000000000001", "1.5", "0.000000000000000000000001", ".", "1e10", "1E400", "1e-400", "0x10", "0b1", "1_000", "1/3",
}

// exponentAmplifiers: a few bytes that denote an astronomically large or small number in every spelling Go's number
// parsers (big.Int, big.Rat, big.Float SetString; strconv) accept - plain, signed and zero-padded exponents, digit
// separators inside mantissa and exponent, binary exponents on hex, octal and binary mantissas (the class of finding N3)
var exponentAmplifiers = []string{
	"1e1000", "1e99999", "1e1000000", "0x1p10000000", "1e-1000000",
	"1e99_999", "1E+999_999", "1e+99999", "1e0000099999", "1_0e99999", "1e-99_999", "0x1p99_999", "0X1P+9999999", "0b1p99999", "0o7p99999", "1p99999", "1.5e9_9_9_9_9",
}

func init() { hostileNumbers = append(hostileNumbers, exponentAmplifiers...) }

var digitLens = []int{19, 20, 21, 38, 39, 40, 77, 78, 79, 100, 1000, 10000, 50000}

// textOne applies one mutation to a text form. shaped reports whether the overall
// shape (separators, prefixes) was kept, i.e. the hostile part reaches the field parsers.
func (m *mut) textOne(s []byte) (out []byte, shaped bool) {
	s = clone(s)
	switch k := m.intn(100, "top"); {
	case k < 30: // hex run: over-long / short / odd
		hs := runs(s, isHex, 8)
		if len(hs) == 0 {
			return append(s, m.hexChars(2+m.intn(70, "n"))...), false
		}
		sp := hs[m.intn(len(hs), "run")]
		switch m.intn(4, "hexop") {
		case 0: // lengthen
			n := []int{1, 2, 3, 4, 6, 64, 65, 128, 1000, 20000}[m.intn(10, "n")]
			m.note("hex+%d", n)
			return splice(s, span{sp.hi, sp.hi}, m.hexChars(n)), true
		case 1: // shorten
			n := min(sp.hi-sp.lo, []int{1, 2, 3, 4, 6, 32, 63}[m.intn(7, "n")])
			m.note("hex-%d", n)
			return splice(s, span{sp.hi - n, sp.hi}, nil), true
		case 2: // exact hostile lengths
			n := []int{0, 1, 2, 31, 32, 33, 62, 63, 64, 65, 66, 67, 76, 77, 128, 129, 130}[m.intn(17, "n")]
			m.note("hex=%d", n)
			return splice(s, sp, m.hexChars(n)), true
		default: // a non-hex character inside
			o := sp.lo + m.intn(sp.hi-sp.lo, "off")
			const bad = "gGzZ :x-\x00\xff"
			s[o] = bad[m.intn(len(bad), "c")]
			m.note("hex!%d", o)
			return s, true
		}
	case k < 55: // digit run: hostile numbers / huge digit strings
		ds := runs(s, isDigit, 1)
		var sp span
		if len(ds) == 0 {
			sp = span{len(s), len(s)}
		} else {
			sp = ds[m.intn(len(ds), "run")]
		}
		if m.intn(4, "huge") == 0 {
			n := digitLens[m.intn(len(digitLens), "len")]
			m.note("digits*%d", n)
			return splice(s, sp, rep("19"[m.intn(2, "d")], n)), true
		}
		v := hostileNumbers[m.intn(len(hostileNumbers), "num")]
		m.note("num=%s", v)
		return splice(s, sp, []byte(v)), true
	case k < 67: // prefixes and separators
		seps := runs(s, func(c byte) bool {
			return c == ':' || c == '(' || c == ')' || c == ',' || c == '[' || c == ']' || c == '.' || c == ' '
		}, 1)
		if len(seps) == 0 {
			m.note("sep+")
			return append([]byte([]string{"ed25519:", "::", "5::", ":", "0x", "v", "\""}[m.intn(7, "p")]), s...), false
		}
		sp := seps[m.intn(len(seps), "sep")]
		repl := []string{"", ":", "::", ":::", ";", "(", ")", ",", "[", "]", "((", "))", ",,", " ", "\t\n", "."}[m.intn(16, "r")]
		m.note("sep@%d=%q", sp.lo, repl)
		return splice(s, sp, []byte(repl)), true
	case k < 75: // swap / drop the part before the first separator
		i := strings.IndexAny(string(s), ":(")
		if i < 0 {
			i = 0
		}
		repl := []string{"", "ed25519", "ED25519", "ed25519x", "x", "thresh", "uc", "pk", "h", "opaque", "above", "after", "\"quoted\"", "\"unterminated", "0123456789abcdefg"}[m.intn(15, "r")]
		m.note("head=%q", repl)
		return splice(s, span{0, i}, []byte(repl)), true
	case k < 82: // nesting
		d := []int{1, 2, 31, 32, 33, 34, 100, 1000, 5000}[m.intn(9, "depth")]
		open, close := "thresh(1,[", "])"
		if m.intn(4, "par") == 0 {
			open, close = "(", ")"
		}
		m.note("nest*%d", d)
		out := append([]byte(strings.Repeat(open, d)), s...)
		return append(out, strings.Repeat(close, d)...), true
	case k < 88: // unit suffix / trailing junk
		suf := []string{" SC", "SC", " H", "H", "TS", "pS", "mS", " KS", "XS", " sc", "S", "e5", ")", "]", "\x00", " ", "\n"}[m.intn(17, "suf")]
		if m.intn(3, "amplified") == 0 {
			// an amount with a unit goes through another parser than a bare number: the amplifiers with every unit
			amp := exponentAmplifiers[m.intn(len(exponentAmplifiers), "amp")]
			m.note("amount=%q", amp+suf)
			return []byte(amp + suf), true
		}
		m.note("suffix=%q", suf)
		return append(s, suf...), true
	case k < 92: // whole-input replacements
		v := []string{"", " ", "null", "\"\"", "::", ":", "ed25519:", "0x", "()", "thresh(", "thresh(0,[", "uc(0,[],0)", "uc(0,[", "v1.2", "v256.0.0", "v-1.0.0"}[m.intn(16, "v")]
		m.note("whole=%q", v)
		return []byte(v), false
	default: // byte level
		if len(s) == 0 {
			return []byte{0xff}, false
		}
		switch m.intn(3, "b") {
		case 0:
			o := m.intn(len(s), "off")
			s[o] = []byte{0, '"', '\\', 0x80, 0xff, ' ', '(', ')', ',', '[', ']', ':', '-', '+', '.', 'e'}[m.intn(16, "c")]
			m.note("char@%d", o)
			return s, false
		case 1:
			n := m.intn(len(s), "keep")
			m.note("truncate=%d", n)
			return s[:n], false
		default:
			o := m.intn(len(s), "off")
			s[o] ^= 1 << m.intn(8, "bit")
			m.note("flip@%d", o)
			return s, false
		}
	}
}

func (m *mut) mutateText(s []byte) (out []byte, shaped bool) {
	n := []int{0, 1, 1, 1, 1, 1, 1, 1, 2, 2, 2, 3}[m.intn(12, "nmut")]
	out, shaped = s, true
	for i := 0; i < n; i++ {
		next, sh := m.textOne(out)
		if len(next) > maxInputLen {
			break // stacked mutations multiply sizes; inputs stay below 1 MiB
		}
		out, shaped = next, shaped && sh
	}
	return out, shaped
}

// ---------------------------------------------------------------------------
// JSON documents
// ---------------------------------------------------------------------------

type jtok struct {
	span
	kind  byte // 's' string value, 'k' object key, 'n' number, 'l' literal (true/false/null)
	depth int
}

// jsonTokens is a forgiving scanner: it finds the scalar tokens of a JSON text
// without validating it (mutated documents are scanned again for stacked mutations).
func jsonTokens(s []byte) []jtok {
	var out []jtok
	depth := 0
	for i := 0; i < len(s); {
		c := s[i]
		switch {
		case c == '{' || c == '[':
			depth++
			i++
		case c == '}' || c == ']':
			depth--
			i++
		case c == '"':
			j := i + 1
			for j < len(s) && s[j] != '"' {
				if s[j] == '\\' {
					j++
				}
				j++
			}
			j = min(j+1, len(s))
			k := j
			for k < len(s) && (s[k] == ' ' || s[k] == '\n' || s[k] == '\t') {
				k++
			}
			kind := byte('s')
			if k < len(s) && s[k] == ':' {
				kind = 'k'
			}
			out = append(out, jtok{span{i, j}, kind, depth})
			i = j
		case c == '-' || isDigit(c):
			j := i + 1
			for j < len(s) && (isDigit(s[j]) || s[j] == '.' || s[j] == 'e' || s[j] == 'E' || s[j] == '+' || s[j] == '-') {
				j++
			}
			out = append(out, jtok{span{i, j}, 'n', depth})
			i = j
		case c == 't' || c == 'f' || c == 'n':
			j := i
			for j < len(s) && s[j] >= 'a' && s[j] <= 'z' {
				j++
			}
			out = append(out, jtok{span{i, j}, 'l', depth})
			i = j
		default:
			i++
		}
	}
	return out
}

var jsonWrongTypes = []string{
	"null", "true", "false", "0", "-1", "1.5", "1e400", "-0", "18446744073709551615", "18446744073709551616",
	"340282366920938463463374607431768211456", `""`, `"x"`, `" "`, `"null"`, `"0"`, "{}", "[]", "[null]", "[[]]", `{"a":{}}`, `[0]`, `[""]`,
	`{"type":"thresh","policy":{"n":1,"of":[]}}`, `{"type":"","policy":null}`, `"\u0000"`, `"\ud800"`,
}

var jsonHostileKeys = []string{`"0"`, `"1"`, `"63"`, `"64"`, `"65"`, `"255"`, `"-1"`, `"4294967296"`, `"9223372036854775807"`, `"18446744073709551616"`, `""`, `"x"`, `"1e2"`, `" 1"`, `"01"`}

var jsonDepths = []int{2, 64, 1000, 9998, 9999, 10000, 10001, 20000, 100000}

// objectSpans finds the JSON objects of s that start with marker.
func objectSpans(s []byte, marker string) []span {
	var out []span
	for from := 0; ; {
		i := strings.Index(string(s[from:]), marker)
		if i < 0 {
			return out
		}
		lo := from + i
		depth, inStr, hi := 0, false, -1
		for j := lo; j < len(s) && hi < 0; j++ {
			switch c := s[j]; {
			case inStr:
				if c == '\\' {
					j++
				} else if c == '"' {
					inStr = false
				}
			case c == '"':
				inStr = true
			case c == '{' || c == '[':
				depth++
			case c == '}' || c == ']':
				if depth--; depth == 0 {
					hi = j + 1
				}
			}
		}
		if hi < 0 {
			return out
		}
		out = append(out, span{lo, hi})
		from = lo + 1
		if len(out) >= 64 {
			return out
		}
	}
}

func deepJSON(d int, open, close string, core string) []byte {
	return []byte(strings.Repeat(open, d) + core + strings.Repeat(close, d))
}

// jsonOne applies one mutation to a JSON text. shaped: the result is still meant to be
// syntactically valid JSON (so the hostile part reaches the type's own unmarshalers).
func (m *mut) jsonOne(s []byte) (out []byte, shaped bool) {
	if m.intn(6, "jmember") == 0 {
		if out, ok := m.jsonMember(s); ok {
			return out, true
		}
	}
	toks := jsonTokens(s)
	pick := func(kinds string) (jtok, bool) {
		var c []jtok
		for _, t := range toks {
			if strings.IndexByte(kinds, t.kind) >= 0 {
				c = append(c, t)
			}
		}
		if len(c) == 0 {
			return jtok{}, false
		}
		return c[m.intn(len(c), "tok")], true
	}
	switch k := m.intn(100, "jop"); {
	case k < 30: // hostile text inside a string value
		t, ok := pick("s")
		if !ok {
			break
		}
		inner, _ := m.textOne(s[t.lo+1 : max(t.lo+1, t.hi-1)])
		inner = []byte(strings.NewReplacer("\\", "\\\\", "\"", "\\\"", "\n", "\\n", "\t", "\\t", "\x00", "\\u0000").Replace(string(inner)))
		m.note("jstr@%d", t.lo)
		return splice(s, span{t.lo + 1, max(t.lo+1, t.hi-1)}, inner), true
	case k < 50: // wrong JSON type for a value
		t, ok := pick("snl")
		if !ok {
			break
		}
		v := jsonWrongTypes[m.intn(len(jsonWrongTypes), "wt")]
		m.note("jtype@%d=%s", t.lo, v)
		return splice(s, t.span, []byte(v)), true
	case k < 62: // hostile numbers
		t, ok := pick("n")
		if !ok {
			t, ok = pick("sl")
			if !ok {
				break
			}
		}
		if m.intn(5, "huge") == 0 {
			n := digitLens[m.intn(len(digitLens), "len")]
			m.note("jdigits*%d", n)
			return splice(s, t.span, rep('9', n)), true
		}
		v := hostileNumbers[m.intn(len(hostileNumbers)-len(exponentAmplifiers), "num")] // exponent amplifiers are only interesting inside strings
		m.note("jnum@%d=%s", t.lo, v)
		return splice(s, t.span, []byte(v)), true // some of these are not JSON numbers: syntax errors are part of the domain
	case k < 72: // keys: hostile map keys, renamed or duplicated fields
		t, ok := pick("k")
		if !ok {
			break
		}
		switch m.intn(3, "kop") {
		case 0:
			v := jsonHostileKeys[m.intn(len(jsonHostileKeys), "key")]
			m.note("jkey@%d=%s", t.lo, v)
			return splice(s, t.span, []byte(v)), true
		case 1:
			m.note("jkey@%d renamed", t.lo)
			return splice(s, span{t.lo + 1, t.lo + 1}, []byte("x")), true
		default: // duplicate the key with a hostile value in front
			v := jsonWrongTypes[m.intn(len(jsonWrongTypes), "wt")]
			m.note("jkey@%d dup=%s", t.lo, v)
			return splice(s, span{t.lo, t.lo}, append(append(clone(s[t.lo:t.hi]), ':'), append([]byte(v), ',')...)), true
		}
	case k < 82: // deep nesting, in place of a value or around the document
		d := jsonDepths[m.intn(len(jsonDepths), "depth")]
		open, close, core := "[", "]", "0"
		// every object of the chain may carry a member whose string value is made to derail a hand-written scanner that
		// tracks "inside a string" itself (escaped backslash before the closing quote, escaped quote, brackets in a string)
		decoy := []string{"", "", `"x":"\\",`, `"x":"\"",`, `"x":"\\\"",`, `"x":"}{][",`, `"x":"\u005c",`, `"\\":0,`}[m.intn(8, "decoy")]
		switch m.intn(3, "shape") {
		case 1:
			open, close, core = `{`+decoy+`"a":`, "}", "0"
		case 2:
			if m.intn(2, "policyDecoy") == 0 {
				decoy = []string{`"x":"\\",`, `"\\":0,`, `"x":"a\\",`}[m.intn(3, "pdecoy")]
			}
			open, close, core = `{`+decoy+`"type":"thresh","policy":{"n":0,"of":[`, "]}}", `{"type":"above","policy":0}`
			d = min(d, 3400)
		}
		m.note("jnest*%d%s", d, open[:1])
		if objs := objectSpans(s, `{"type":`); len(objs) > 0 && m.intn(2, "atpolicy") == 0 {
			// in place of a whole {"type":...} object (a policy or a resolution), wherever it sits
			return splice(s, objs[m.intn(len(objs), "obj")], deepJSON(d, open, close, core)), true
		}
		if t, ok := pick("snl"); ok && m.intn(3, "where") != 0 {
			return splice(s, t.span, deepJSON(d, open, close, core)), true
		}
		return deepJSON(d, open, close, string(s)), true
	case k < 88: // long arrays: repeat an element
		t, ok := pick("snl")
		if !ok {
			break
		}
		n := []int{2, 3, 64, 65, 256, 1000, 5000}[m.intn(7, "rep")]
		// the token becomes an array of n copies of itself (well-formed wherever a value may stand)
		elem := string(s[t.lo:t.hi])
		n = max(2, min(n, maxInputLen/(len(elem)+1)))
		m.note("jrepeat@%d*%d", t.lo, n)
		return splice(s, t.span, []byte("["+strings.Repeat(elem+",", n-1)+elem+"]")), true
	case k < 92: // whole document
		v := []string{"", "null", "{}", "[]", `""`, "0", "true", "[{}]", `{"":null}`, "{", "[", `"`, "nul", "\xff"}[m.intn(14, "whole")]
		m.note("jwhole=%q", v)
		return []byte(v), false
	}
	// byte level (also the fallback when the document has no token of the wanted kind)
	if len(s) == 0 {
		return []byte("{"), false
	}
	s = clone(s)
	switch m.intn(3, "b") {
	case 0:
		n := m.intn(len(s), "keep")
		m.note("jtruncate=%d", n)
		return s[:n], false
	case 1:
		o := m.intn(len(s), "off")
		s[o] = []byte{'"', '{', '}', '[', ']', ':', ',', '\\', 0, 0xff, '0', '-', 'e'}[m.intn(13, "c")]
		m.note("jchar@%d", o)
		return s, false
	default:
		o := m.intn(len(s), "off")
		s[o] ^= 1 << m.intn(8, "bit")
		m.note("jflip@%d", o)
		return s, false
	}
}

func (m *mut) mutateJSON(s []byte) (out []byte, shaped bool) {
	n := []int{0, 1, 1, 1, 1, 1, 1, 1, 2, 2, 2, 3}[m.intn(12, "nmut")]
	out, shaped = s, true
	for i := 0; i < n; i++ {
		next, sh := m.jsonOne(out)
		if len(next) > maxInputLen {
			break
		}
		out, shaped = next, shaped && sh
	}
	return out, shaped
}

// jsonMember is a structural mutation: one member of an object or one element of an array, at any depth and of any
// kind (a whole sub-object such as a policy, a parent element, a resolution), is removed or replaced by null, an empty
// object, an empty array, an empty string or 0. The result is valid JSON with a hole where a decoder expects
// structure: what it decodes to (zero values, nil interfaces, nil pointers) is what validation sees next.
func (m *mut) jsonMember(s []byte) ([]byte, bool) {
	var doc any
	dec := json.NewDecoder(strings.NewReader(string(s)))
	dec.UseNumber()
	if dec.Decode(&doc) != nil {
		return nil, false
	}
	type slot struct {
		obj map[string]any
		key string
		arr []any
		idx int
	}
	var slots []slot
	var walk func(v any)
	walk = func(v any) {
		switch x := v.(type) {
		case map[string]any:
			keys := make([]string, 0, len(x))
			for k := range x {
				keys = append(keys, k)
			}
			sort.Strings(keys)
			for _, k := range keys {
				slots = append(slots, slot{obj: x, key: k})
				walk(x[k])
			}
		case []any:
			for i := range x {
				slots = append(slots, slot{arr: x, idx: i})
				walk(x[i])
			}
		}
	}
	walk(doc)
	if len(slots) == 0 {
		return nil, false
	}
	sl := slots[m.intn(len(slots), "slot")]
	repl := []any{nil, map[string]any{}, []any{}, "", json.Number("0")}
	op := m.intn(len(repl)+1, "memberOp")
	where := sl.key
	if sl.obj == nil {
		where = fmt.Sprintf("[%d]", sl.idx)
	}
	switch {
	case op == len(repl) && sl.obj != nil:
		delete(sl.obj, sl.key)
		m.note("jmember-deleted %s", where)
	case op == len(repl):
		sl.arr[sl.idx] = nil
		m.note("jmember %s=null", where)
	case sl.obj != nil:
		sl.obj[sl.key] = repl[op]
		m.note("jmember %s=%v", where, repl[op])
	default:
		sl.arr[sl.idx] = repl[op]
		m.note("jmember %s=%v", where, repl[op])
	}
	out, err := json.Marshal(doc)
	if err != nil {
		return nil, false
	}
	return out, true
}
