package c10

import (
	"encoding/binary"
	"fmt"

	"pgregory.net/rapid"
)

// hostile are the values written over length prefixes, counts, enums, bools and
// indices (little-endian 64-bit windows, aligned or not).
var hostile = []uint64{0, 1, 2, 255, 256, 1 << 16, 1 << 20, 1 << 24, 1<<31 - 1, 1 << 31, 1 << 32, 1 << 62, 1 << 63, ^uint64(0)}

// hostileBytes are written over single bytes (bools, opcodes, versions, tags, kinds).
var hostileBytes = []byte{0, 1, 2, 3, 4, 5, 6, 7, 8, 0x7f, 0x80, 0xfe, 0xff}

// mut draws mutations from rapid and remembers what it did (for samples and replays).
type mut struct {
	t   *rapid.T
	ops []string
}

func (m *mut) intn(n int, label string) int {
	if n <= 1 {
		return 0
	}
	return rapid.IntRange(0, n-1).Draw(m.t, label)
}

func (m *mut) note(format string, args ...any) { m.ops = append(m.ops, fmt.Sprintf(format, args...)) }

// fill expands a drawn seed into n pseudo-random bytes (one rapid draw, not n).
func (m *mut) fill(n int) []byte {
	x := rapid.Uint64().Draw(m.t, "fill")
	return fillSeed(n, x)
}

// fillSeed is splitmix64 output of seed x, n bytes.
func fillSeed(n int, x uint64) []byte {
	b := make([]byte, n)
	for i := 0; i < n; i += 8 {
		x += 0x9E3779B97F4A7C15
		z := x
		z = (z ^ (z >> 30)) * 0xBF58476D1CE4E5B9
		z = (z ^ (z >> 27)) * 0x94D049BB133111EB
		z ^= z >> 31
		for j := 0; j < 8 && i+j < n; j++ {
			b[i+j] = byte(z >> (8 * j))
		}
	}
	return b
}

// prefixCandidates returns the offsets of 8-byte windows that look like a length
// prefix or count: little-endian value not larger than the whole input. This finds
// the real prefixes of a valid encoding (and runs of zero bytes) without a schema.
func prefixCandidates(b []byte) []int {
	var c []int
	for o := 0; o+8 <= len(b); o++ {
		if b[o+4] == 0 && b[o+5] == 0 && b[o+6] == 0 && b[o+7] == 0 {
			if v := binary.LittleEndian.Uint64(b[o:]); v <= uint64(len(b)) {
				c = append(c, o)
			}
		}
	}
	return c
}

// windowValue draws the value to write at offset o: a hostile constant, a hostile
// constant +-1, or a value relative to the number of bytes that follow the window
// (exactly the boundary of the decoder's "prefix > bytes left" checks).
func (m *mut) windowValue(b []byte, o int) uint64 {
	rem := uint64(len(b) - min(len(b), o+8))
	switch m.intn(10, "vkind") {
	case 0, 1, 2, 3, 4:
		return hostile[m.intn(len(hostile), "hostile")]
	case 5:
		return hostile[m.intn(len(hostile), "hostile")] + 1
	case 6:
		return hostile[m.intn(len(hostile), "hostile")] - 1
	case 7:
		return []uint64{rem, rem + 1, rem - 1, rem + 8, rem * 2, rem/2 + 1}[m.intn(6, "rel")]
	case 8:
		return []uint64{rem / 32, rem/32 + 1, rem / 8, rem/8 + 1, rem / 16, rem/16 + 1, rem / 24, rem/24 + 1}[m.intn(8, "relelem")]
	default:
		return rapid.Uint64().Draw(m.t, "any")
	}
}

func clone(b []byte) []byte { return append([]byte{}, b...) }

// one applies one structure-aware mutation to b. other supplies a second valid
// encoding (for splicing); it may return nil.
func (m *mut) one(b []byte, other func() []byte) []byte {
	b = clone(b)
	switch k := m.intn(100, "op"); {
	case k < 32 && len(b) >= 8: // overwrite a window that looks like a prefix/count
		c := prefixCandidates(b)
		if len(c) == 0 {
			c = []int{0}
		}
		o := c[m.intn(len(c), "cand")]
		v := m.windowValue(b, o)
		binary.LittleEndian.PutUint64(b[o:], v)
		m.note("prefix@%d=%#x", o, v)
	case k < 47 && len(b) >= 8: // overwrite any window, aligned or unaligned
		o := m.intn(len(b)-7, "off")
		if m.intn(2, "align") == 0 {
			o &^= 7
		}
		v := m.windowValue(b, o)
		binary.LittleEndian.PutUint64(b[o:], v)
		m.note("window@%d=%#x", o, v)
	case k < 57 && len(b) >= 1: // single byte: bool / opcode / version / tag
		o := m.intn(len(b), "off")
		v := hostileBytes[m.intn(len(hostileBytes), "byte")]
		b[o] = v
		m.note("byte@%d=%#x", o, v)
	case k < 67 && len(b) >= 1: // truncate
		var n int
		switch m.intn(3, "where") {
		case 0:
			n = len(b) - 1 - m.intn(min(len(b), 9), "cut")
		case 1:
			n = m.intn(min(len(b), 17), "keep")
		default:
			n = m.intn(len(b), "keep")
		}
		n = max(0, n)
		b = b[:n]
		m.note("truncate=%d", n)
	case k < 72: // extend
		n := 1 + m.intn(64, "ext")
		switch m.intn(3, "extkind") {
		case 0:
			b = append(b, make([]byte, n)...)
		case 1:
			for i := 0; i < n; i++ {
				b = append(b, 0xff)
			}
		default:
			b = append(b, m.fill(n)...)
		}
		m.note("extend+%d", n)
	case k < 80: // splice with another valid encoding
		o := other()
		if len(o) == 0 {
			o = m.fill(1 + m.intn(40, "rnd"))
		}
		i, j := m.intn(len(b)+1, "cutA"), m.intn(len(o)+1, "cutB")
		b = append(b[:i:i], o[j:]...)
		m.note("splice %d|%d", i, len(o)-j)
	case k < 87 && len(b) >= 1: // bit flips
		n := 1 + m.intn(4, "flips")
		for i := 0; i < n; i++ {
			o := m.intn(len(b), "off")
			b[o] ^= 1 << m.intn(8, "bit")
		}
		m.note("flip*%d", n)
	case k < 92 && len(b) >= 1: // delete or insert a few bytes (shifts every later field)
		o := m.intn(len(b), "off")
		n := 1 + m.intn(8, "n")
		if m.intn(2, "ins") == 0 {
			b = append(b[:o:o], b[min(len(b), o+n):]...)
			m.note("delete@%d*%d", o, n)
		} else {
			b = append(b[:o:o], append(make([]byte, n), b[o:]...)...)
			m.note("insert@%d*%d", o, n)
		}
	default: // a run of hostile constants, optionally after a valid prefix
		keep := 0
		if len(b) > 0 && m.intn(2, "keepprefix") == 0 {
			keep = m.intn(len(b)+1, "keep")
		}
		b = b[:keep:keep]
		n := 1 + m.intn(8, "consts")
		for i := 0; i < n; i++ {
			b = binary.LittleEndian.AppendUint64(b, hostile[m.intn(len(hostile), "hostile")])
		}
		m.note("consts@%d*%d", keep, n)
	}
	return b
}

// mutateBytes applies 0..3 mutations.
func (m *mut) mutateBytes(b []byte, other func() []byte) []byte {
	n := []int{0, 1, 1, 1, 1, 1, 1, 1, 1, 1, 1, 1, 2, 2, 2, 2, 2, 3, 3, 3}[m.intn(20, "nmut")]
	for i := 0; i < n; i++ {
		b = m.one(b, other)
	}
	return b
}
