# Per-property configuration for ./run is kept next to each check: harness/checks/<cXX>/check.json
#   pkg          Go package of the check (relative to harness/)
#   units        list of test entry points: {test, kind: rapid|plain, shards, checks{quick,thorough}, timeout{quick,thorough},
#                race: bool, tiers: [..], env: {NAME: value | {quick:..,thorough:..}}, steps{quick,thorough}}
#   rule         text for evidence.coverage.rule (generation + non-trivial/distinct rule)
#   assumptions  list of strings for evidence.assumptions
# Case counts are budgets, never time limits.
import glob, json, os

CHECKS = {}
_here = os.path.dirname(os.path.abspath(__file__))
for _p in sorted(glob.glob(os.path.join(_here, "harness", "checks", "*", "check.json"))):
    _id = os.path.basename(os.path.dirname(_p)).upper()
    CHECKS[_id] = json.load(open(_p))
