# Per-property configuration for ./run: which test entry points make up a check, how many
# cases each tier draws, over how many worker processes, and the rule/assumption texts that
# go into the evidence file.  Case counts are budgets, never time limits.

CHECKS = {}

CHECKS["C15"] = {
    "pkg": "./checks/c15",
    "units": [
        {"test": "TestEnum", "kind": "plain", "shards": 4},
        {"test": "TestProp", "kind": "rapid", "shards": {"quick": 16, "thorough": 16}, "checks": {"quick": 400000, "thorough": 8000000}},
        {"test": "TestText", "kind": "rapid", "shards": {"quick": 8, "thorough": 16}, "checks": {"quick": 80000, "thorough": 1500000}},
    ],
    "rule": "TestEnum: every ordered pair from a ~75-value boundary set (around 0, 2^31..2^33, 2^62..2^65, 2^95/96, 2^126..2^128-1, "
            "multiples of 10^24) x {add,sub,mul,div,cmp} and every (value, uint64 boundary) x {mul64,div64}, enumerated completely; "
            "TestProp: rapid-drawn operands of every bit length plus dividends engineered as q*v+r, r in {0,1,v-1}, v>=2^64; "
            "TestText: round trips of %d/ExactString/String/MarshalText/JSON/binary, exact scaled parsing in every unit, and "
            "rejection classes (negative, fractional hastings, >=2^128, unknown unit, not a number). Oracle: math/big. "
            "Non-trivial: exact result within 2 of 2^64 or 2^128, division by zero, Div taking the trial-quotient adjust branch, "
            "Div64 two-step path, comparisons differing by <=2 or with Hi/Lo ordered oppositely; text: fractional mantissa / TS suffix / "
            "max value / any rejection case. Distinct by (op, operands) or by text.",
    "assumptions": ["math/big is correct", "division by zero is documented to panic; Add/Sub/Mul/Mul64 are documented to panic on overflow"],
}
